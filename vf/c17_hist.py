"""C17 history family: a helper subroutine shared by a Router (compiled first) and a later, otherwise unrelated program."""
# NOTE: no `from __future__ import annotations` (PyTeal evaluates the handlers' annotations)
from . import diff


def run_history(case):
    """case = {"hl": helper locals, "nv": variables of the second program, "left_out": index or None, "version": v,
    "pre": "router" | "program" | "none", "use_helper": bool}
    -> ("rejected", err) | ("accepted", teal) | ("crash", exc)"""
    import pyteal as pt

    diff.reset_pyteal_state()
    try:
        hl = case["hl"]

        @pt.Subroutine(pt.TealType.uint64)
        def bump(a):
            ts = [pt.ScratchVar(pt.TealType.uint64) for _ in range(hl)]
            return pt.Seq(*[t.store(a + pt.Int(i + 1)) for i, t in enumerate(ts)], ts[-1].load())

        if case["pre"] == "router":
            router = pt.Router("r", pt.BareCallActions(no_op=pt.OnCompleteAction(action=pt.Approve(), call_config=pt.CallConfig.CREATE)), clear_state=pt.Approve())

            @router.method
            def m(x: pt.abi.Uint64, *, output: pt.abi.Uint64):
                return output.set(bump(x.get()))

            router.compile_program(version=max(6, case["version"]))
        elif case["pre"] == "program":
            pt.compileTeal(pt.Seq(pt.Pop(bump(pt.Int(1))), pt.Int(1)), pt.Mode.Application, version=case["version"])
        vs = [pt.ScratchVar(pt.TealType.uint64) for _ in range(case["nv"])]
        loads = [v.load() for v in vs]
        tail = bump(pt.Int(2)) if case["use_helper"] else pt.Int(1)
        prog = pt.Seq(*[v.store(pt.Int(i + 1)) for i, v in enumerate(vs) if i != case["left_out"]], *[pt.Pop(ld) for ld in loads], pt.Return(tail))
        try:
            teal = pt.compileTeal(prog, pt.Mode.Application, version=case["version"], optimize=pt.OptimizeOptions(scratch_slots=False))
            return "accepted", teal
        except diff.pyteal_errors() as e:
            return "rejected", e
    except Exception as e:  # noqa
        return "crash", e
    finally:
        diff.reset_pyteal_state()
