"""Abstract interpretation of emitted TEAL over its CFG: stack heights and coarse types (C05 validity predicate).

Per routine region (main = from instruction 0; each subroutine = from its callsub target), a forward dataflow
analysis over abstract states  (borrowed, stack)  where `stack` is the list of abstract types (U, B, A) pushed
since routine entry and `borrowed` is the number of values consumed from below the entry height (the routine's
arguments under the scratch calling convention).  Relative height = len(stack) - borrowed.

Judging rules (all from the property statement):
  height-mismatch   two paths reach an instruction with different relative heights
  underflow         main pops below its entry; a routine pops more than its arguments; under `proto` anything
                    below the frame base
  type              an opcode is applied to a value of a definitely wrong type (U where B is needed or vice versa)
  retsub-height     a routine returns with a height that differs between its exits / from its signature
  return-type       `return` with a definitely-bytes verdict or an empty stack
  return-height     `return` in the main routine with values left under the verdict
  frame             frame_dig / frame_bury outside the frame
  sig-mismatch      declared (recipe) signature of a routine differs from what the code does
Ops without a sure stack signature make the analysis give up on that routine ("not analysed", counted).
"""
from __future__ import annotations

from dataclasses import dataclass, field
from typing import Dict, List, Optional, Tuple

from . import langspec as L
from . import parser as tp
from .static import Cfg, TERMINATORS


@dataclass
class Sig:
    nargs: int
    nrets: int
    ret_types: Optional[List[str]] = None
    proto: bool = False
    known: bool = True


@dataclass
class Analysis:
    issues: List[L.Issue] = field(default_factory=list)
    analysed: int = 0
    not_analysed: List[str] = field(default_factory=list)
    joins: int = 0
    sigs: Dict[str, Sig] = field(default_factory=dict)
    max_height: int = 0
    heights: Dict[int, int] = field(default_factory=dict)  # instruction index -> relative height before it (main / routine)


class _GiveUp(Exception):
    pass


class _Bottom(Exception):
    """path cannot be continued yet (callee signature unknown)"""


def _join_t(a, b):
    return a if a == b else "A"


class _Routine:
    def __init__(self, an: "Analyser", name: Optional[str], entry: int):
        self.an = an
        self.name = name
        self.entry = entry
        self.state: Dict[int, Tuple[int, Tuple[str, ...]]] = {}
        self.ret_heights: List[Tuple[int, int, Tuple[str, ...]]] = []  # (instr, relheight, top types)
        self.max_borrow = 0
        self.proto: Optional[Tuple[int, int]] = None
        self.blocked = False

    def issue(self, i, kind, msg, sure=True):
        ins = self.an.prog.instrs[i]
        self.an.out.issues.append(L.Issue(ins.line, kind, ("%s: " % (self.name or "main")) + msg, sure))

    def run(self):
        prog = self.an.prog
        ins0 = prog.instrs[self.entry]
        if self.name is not None and ins0.op == "proto":
            a, r = int(ins0.args[0]), int(ins0.args[1])
            self.proto = (a, r)
        work = [self.entry]
        self.state[self.entry] = (0, ())
        cfg = self.an.cfg
        while work:
            i = work.pop()
            b, st = self.state[i]
            try:
                nb, nst = self.step(i, b, list(st))
            except _Bottom:
                self.blocked = True
                continue
            self.max_borrow = max(self.max_borrow, nb)
            self.an.out.max_height = max(self.an.out.max_height, len(nst) - nb)
            op = prog.instrs[i].op
            if op in TERMINATORS:
                continue
            for s in cfg.succ[i]:
                new = (nb, tuple(nst))
                old = self.state.get(s)
                if old is None:
                    self.state[s] = new
                    work.append(s)
                    continue
                self.an.out.joins += 1
                ob, ost = old
                if len(ost) - ob != len(nst) - nb:
                    self.issue(s, "height-mismatch", "instruction %r reached with relative stack heights %d and %d" % (prog.instrs[s].op, len(ost) - ob, len(nst) - nb))
                    continue
                mb = max(ob, nb)
                a = ("A",) * (mb - ob) + ost
                c = ("A",) * (mb - nb) + tuple(nst)
                j = tuple(_join_t(x, y) for x, y in zip(a, c))
                if (mb, j) != old:
                    self.state[s] = (mb, j)
                    work.append(s)

    # -- stack helpers on (b, st)
    def pop(self, i, b, st, want="A"):
        if st:
            t = st.pop()
        else:
            b += 1
            t = "A"
            self.check_borrow(i, b)
        if want in ("U", "B") and t in ("U", "B") and t != want:
            self.issue(i, "type", "%s applied to a %s where %s is required" % (self.an.prog.instrs[i].op, _tn(t), _tn(want)))
        return b, t

    def check_borrow(self, i, b):
        if self.name is None:
            self.issue(i, "underflow", "%s pops below the program's entry height" % self.an.prog.instrs[i].op)
            raise _GiveUp()
        if self.proto is not None:
            self.issue(i, "underflow", "%s pops below the frame base of a proto routine" % self.an.prog.instrs[i].op)
            raise _GiveUp()
        decl = self.an.declared.get(self.name)
        if decl is not None and b > decl.nargs:
            self.issue(i, "underflow", "%s pops %d values below the routine's entry but it takes %d argument(s)" % (self.an.prog.instrs[i].op, b, decl.nargs))
            raise _GiveUp()

    def peek(self, i, b, st, depth):
        """type at depth (0 = top); depth beyond the local stack refers to borrowed/caller values"""
        if depth < len(st):
            return st[len(st) - 1 - depth]
        return None

    def step(self, i, b, st):
        prog = self.an.prog
        ins = prog.instrs[i]
        op = ins.op
        spec = L.OPS.get(op)
        if spec is None or not spec.sure:
            raise _GiveUp()
        if i not in self.an.out.heights or True:
            self.an.out.heights[i] = len(st) - b
        if spec.pops is not None and spec.pushes is not None:
            for want in reversed(spec.pops):
                b, _t = self.pop(i, b, st, want)
            for p in spec.pushes:
                if p == "F":
                    st.append(self.field_t(ins))
                elif p == "G":
                    # *_params_get value: a uint64 field is a uint64 whether or not the thing exists (0 when it does not);
                    # a bytes field is bytes or the uint64 0 - left untyped
                    st.append("U" if self.field_t(ins) == "U" else "A")
                else:
                    st.append(p)
            if op == "return" and self.name is None and (st or b):
                # the main routine ends with exactly its verdict on the stack (every value expression was consumed)
                self.issue(i, "return-height", "return in the main routine with %d extra value(s) left on the stack" % (len(st) - b))
            if op == "load":
                st[-1] = self.an.slot_type(ins.args[0])
            if op == "store":
                pass
            return b, st
        # ---- specials
        if op == "dup":
            b, t = self.pop(i, b, st)
            st += [t, t]
        elif op == "dup2":
            b, t2 = self.pop(i, b, st)
            b, t1 = self.pop(i, b, st)
            st += [t1, t2, t1, t2]
        elif op == "dupn":
            n = int(ins.args[0])
            b, t = self.pop(i, b, st)
            st += [t] * (n + 1)
        elif op == "popn":
            for _ in range(int(ins.args[0])):
                b, _t = self.pop(i, b, st)
        elif op == "swap":
            b, t2 = self.pop(i, b, st)
            b, t1 = self.pop(i, b, st)
            st += [t2, t1]
        elif op == "select":
            b, _c = self.pop(i, b, st, "U")
            b, t2 = self.pop(i, b, st)
            b, t1 = self.pop(i, b, st)
            st.append(_join_t(t1, t2))
        elif op in ("dig", "cover", "uncover", "bury"):
            n = int(ins.args[0])
            need = n + 1 if op != "bury" else n + 1
            if op == "bury" and n == 0:
                self.issue(i, "imm-range", "bury 0")
                raise _GiveUp()
            # materialise borrowed values so the operation is expressible
            while len(st) < need:
                b += 1
                st.insert(0, "A")
                self.check_borrow(i, b)
            if op == "dig":
                st.append(st[len(st) - 1 - n])
            elif op == "cover":
                t = st.pop()
                st.insert(len(st) - n, t)
            elif op == "uncover":
                t = st.pop(len(st) - 1 - n)
                st.append(t)
            else:  # bury n: pop top, replace the value n deep (counted before the pop)
                t = st.pop()
                st[len(st) - n] = t
        elif op == "setbit":
            b, _v = self.pop(i, b, st, "U")
            b, _k = self.pop(i, b, st, "U")
            b, t = self.pop(i, b, st)
            st.append(t)
        elif op in ("pushints", "pushbytess"):
            st += ["U" if op == "pushints" else "B"] * len(ins.args)
        elif op == "match":
            raise _GiveUp()
        elif op == "callsub":
            lab = ins.args[0]
            sig = self.an.sig_of(lab)
            if sig is None:
                raise _Bottom()
            for _ in range(sig.nargs):
                b, _t = self.pop(i, b, st)
            rt = sig.ret_types or ["A"] * sig.nrets
            st += list(rt)
        elif op == "proto":
            if i != self.entry or self.name is None:
                self.issue(i, "frame", "proto not at routine entry")
                raise _GiveUp()
        elif op == "frame_dig":
            k = int(ins.args[0])
            if self.proto is None:
                self.issue(i, "frame", "frame_dig in a routine without proto")
                raise _GiveUp()
            if k < 0:
                if -k > self.proto[0]:
                    self.issue(i, "frame", "frame_dig %d reaches below the %d argument(s)" % (k, self.proto[0]))
                st.append("A")
            else:
                if k >= len(st):
                    self.issue(i, "frame", "frame_dig %d above the current stack height %d" % (k, len(st)))
                    raise _GiveUp()
                st.append(st[k])
        elif op == "frame_bury":
            k = int(ins.args[0])
            if self.proto is None:
                self.issue(i, "frame", "frame_bury in a routine without proto")
                raise _GiveUp()
            b, t = self.pop(i, b, st)
            if k < 0:
                if -k > self.proto[0]:
                    self.issue(i, "frame", "frame_bury %d reaches below the %d argument(s)" % (k, self.proto[0]))
            else:
                if k >= len(st):
                    self.issue(i, "frame", "frame_bury %d at/above the stack height %d" % (k, len(st)))
                    raise _GiveUp()
                st[k] = t
        elif op == "retsub":
            if self.name is None:
                self.issue(i, "retsub-in-main", "retsub reached in the main routine")
                raise _GiveUp()
            if self.proto is not None:
                # with proto A R the results are the first R cells of the frame
                self.ret_heights.append((i, len(st) - b, tuple(st[: self.proto[1]])))
            else:
                self.ret_heights.append((i, len(st) - b, tuple(st[-4:])))
        else:
            raise _GiveUp()
        return b, st

    def field_t(self, ins):
        spec = L.OPS[ins.op]
        for kind, a in zip(spec.imms, ins.args):
            if kind in ("txnf", "txnfa", "itxnf", "globalf", "assetholdf", "assetparamf", "appparamf", "acctparamf", "jsontype", "blockf"):
                return L.field_type(kind, a)
        return "A"


def _tn(t):
    return {"U": "uint64", "B": "bytes", "A": "any"}[t]


class Analyser:
    def __init__(self, prog: tp.Program, mode: str, declared: Optional[Dict[str, Sig]] = None):
        self.prog = prog
        self.mode = mode
        self.cfg = Cfg(prog)
        self.declared = declared or {}
        self.out = Analysis()
        self.sigs: Dict[str, Sig] = {}
        self._slot_types: Dict[str, str] = {}
        self._any_stores = any(i.op == "stores" for i in prog.instrs)
        self._slot_pass = False

    def slot_type(self, arg: str) -> str:
        if not self._slot_pass or self._any_stores:
            return "A"
        return self._slot_types.get(arg, "A")

    def sig_of(self, lab: str) -> Optional[Sig]:
        return self.sigs.get(lab)

    def _infer_sigs(self):
        prog, cfg = self.prog, self.cfg
        entries = dict(cfg.sub_entries)
        # proto routines first
        for lab, e in entries.items():
            ins0 = prog.instrs[e]
            if ins0.op == "proto" and len(ins0.args) == 2:
                d = self.declared.get(lab)
                self.sigs[lab] = Sig(int(ins0.args[0]), int(ins0.args[1]), d.ret_types if d else None, True)
        pending = [lab for lab in entries if lab not in self.sigs]
        progress = True
        while pending and progress:
            progress = False
            for lab in list(pending):
                save = self.out
                self.out = Analysis()
                r = _Routine(self, lab, entries[lab])
                try:
                    r.run()
                except _GiveUp:
                    self.out = save
                    continue
                self.out = save
                if r.ret_heights:
                    hs = {h for _i, h, _t in r.ret_heights}
                    h = sorted(hs)[0]
                    d = self.declared.get(lab)
                    if d is not None:
                        nargs = d.nargs
                    else:
                        nargs = r.max_borrow
                    nrets = h + nargs
                    if nrets < 0:
                        continue
                    self.sigs[lab] = Sig(nargs, nrets, d.ret_types if d else None, False, known=not r.blocked)
                    pending.remove(lab)
                    progress = True
                elif not r.blocked:
                    # never returns (only return/err): any signature fits
                    d = self.declared.get(lab)
                    self.sigs[lab] = Sig(d.nargs if d else r.max_borrow, d.nrets if d else 0, d.ret_types if d else None, False)
                    pending.remove(lab)
                    progress = True
        for lab in pending:
            d = self.declared.get(lab)
            if d is not None:
                self.sigs[lab] = Sig(d.nargs, d.nrets, d.ret_types, False)

    def _collect_slot_types(self):
        """flow-insensitive: slot k is 'U' when every store to it stores a definite uint64 (unwritten slots read 0)"""
        types: Dict[str, set] = {}
        for r in self._routines:
            for i, (b, st) in r.state.items():
                ins = self.prog.instrs[i]
                if ins.op == "store" and ins.args:
                    t = st[-1] if st else "A"
                    types.setdefault(ins.args[0], set()).add(t)
        self._slot_types = {k: "U" for k, v in types.items() if v == {"U"}}

    def _pass(self):
        self._routines = []
        prog, cfg = self.prog, self.cfg
        todo = [(None, 0)] + sorted(cfg.sub_entries.items(), key=lambda kv: kv[1])
        for name, e in todo:
            r = _Routine(self, name, e)
            try:
                r.run()
                if r.blocked:
                    self.out.not_analysed.append(name or "main")
                    continue
                self.out.analysed += 1
            except _GiveUp:
                if not any(True for _ in self.out.issues):
                    pass
                self.out.not_analysed.append(name or "main")
                continue
            finally:
                self._routines.append(r)
            if name is not None:
                sig = self.sigs.get(name)
                for i, h, top in r.ret_heights:
                    if r.proto is not None:
                        if h < r.proto[1]:
                            self.out.issues.append(L.Issue(prog.instrs[i].line, "retsub-height", "%s: retsub with %d value(s) above the frame, proto promises %d" % (name, h, r.proto[1])))
                    elif sig is not None and h != sig.nrets - sig.nargs:
                        self.out.issues.append(L.Issue(prog.instrs[i].line, "retsub-height", "%s: retsub at relative height %d, other exits / signature give %d (args %d, results %d)" % (name, h, sig.nrets - sig.nargs, sig.nargs, sig.nrets)))
                    d = self.declared.get(name)
                    if d is not None and d.ret_types and r.proto is not None and h >= r.proto[1]:
                        for k, want in enumerate(d.ret_types):
                            if k < len(top) and top[k] in ("U", "B") and want in ("U", "B") and top[k] != want:
                                self.out.issues.append(L.Issue(prog.instrs[i].line, "ret-type", "%s returns a %s in frame cell %d where %s is declared" % (name, _tn(top[k]), k, _tn(want))))
                    if d is not None and d.ret_types and r.proto is None:
                        for k, want in enumerate(reversed(d.ret_types)):
                            if k < len(top):
                                got = top[len(top) - 1 - k]
                                if got in ("U", "B") and want in ("U", "B") and got != want:
                                    self.out.issues.append(L.Issue(prog.instrs[i].line, "ret-type", "%s returns a %s where %s is declared" % (name, _tn(got), _tn(want))))
                d = self.declared.get(name)
                if d is not None and sig is not None:
                    if r.proto is not None and (r.proto[0] != d.nargs or r.proto[1] != d.nrets):
                        self.out.issues.append(L.Issue(prog.instrs[e].line, "sig-mismatch", "%s: proto %d %d but the routine is declared with %d argument(s) and %d result(s)" % (name, r.proto[0], r.proto[1], d.nargs, d.nrets)))
                    if r.proto is None and sig.known and (sig.nrets != d.nrets):
                        self.out.issues.append(L.Issue(prog.instrs[e].line, "sig-mismatch", "%s: leaves %d result(s), declared %d" % (name, sig.nrets, d.nrets)))
            # `return` checks
            for i, (b, st) in r.state.items():
                if prog.instrs[i].op == "return":
                    if st and st[-1] == "B":
                        pass  # reported by the generic pop type check

    def run(self) -> Analysis:
        if not self.prog.instrs:
            return self.out
        self._infer_sigs()
        self._pass()
        first = self.out
        if not first.issues:
            self._collect_slot_types()
            if self._slot_types and not self._any_stores:
                self._slot_pass = True
                self.out = Analysis()
                self._pass()
        self.out.sigs = dict(self.sigs)
        # dedupe
        seen = set()
        uniq = []
        for i in self.out.issues:
            k = (i.line, i.kind, i.msg)
            if k not in seen:
                seen.add(k)
                uniq.append(i)
        self.out.issues = uniq
        return self.out


def analyse(prog: tp.Program, mode: str, declared: Optional[Dict[str, Sig]] = None) -> Analysis:
    return Analyser(prog, mode, declared).run()
