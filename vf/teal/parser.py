"""Independent TEAL text front end: tokenizer, literal decoder, parser.

Written from the assembler's text grammar (go-algorand data/transactions/logic/assembler.go),
NOT from pyteal/util.py or pyteal/compiler/constants.py.
"""
from __future__ import annotations

import base64
import binascii
import hashlib
import re
from dataclasses import dataclass, field
from typing import Dict, List, Optional, Tuple, Union


class TealSyntaxError(Exception):
    def __init__(self, msg: str, line: int = -1):
        super().__init__(f"line {line}: {msg}" if line >= 0 else msg)
        self.line = line
        self.msg = msg


# --------------------------------------------------------------------------- tokenizer


def _is_space(c: str) -> bool:
    return c == " " or c == "\t"


def _is_full_escaped(s: str) -> bool:
    """true if the char following s is escaped by an odd number of backslashes"""
    n = 0
    i = len(s) - 1
    while i >= 0 and s[i] == "\\":
        n += 1
        i -= 1
    return n % 2 == 1


def tokens_from_line(line: str) -> Tuple[List[str], Optional[str]]:
    """Split one source line into tokens; returns (tokens, comment or None).

    ';' outside a string literal is returned as its own token.
    Raises TealSyntaxError on an unterminated string literal.
    """
    toks: List[str] = []
    i = 0
    n = len(line)
    while i < n and _is_space(line[i]):
        i += 1
    start = i
    in_string = False
    in_b64 = False
    while i < n:
        c = line[i]
        if not _is_space(c):
            if c == '"':
                if not in_string:
                    if i == 0 or _is_space(line[i - 1]):
                        in_string = True
                else:
                    if not _is_full_escaped(line[:i]):
                        in_string = False
            elif c == "/":
                if i < n - 1 and line[i + 1] == "/" and not in_b64 and not in_string:
                    if start != i:
                        toks.append(line[start:i])
                    return toks, line[i + 2 :]
            elif c == "(":
                prefix = line[start:i]
                if prefix in ("base64", "b64"):
                    in_b64 = True
            elif c == ")":
                if in_b64:
                    in_b64 = False
            elif c == ";":
                if not in_string:
                    if start != i:
                        toks.append(line[start:i])
                    toks.append(";")
                    i += 1
                    start = i
                    continue
            i += 1
            continue
        # whitespace
        if not in_string:
            if start != i:
                toks.append(line[start:i])
            while i < n and _is_space(line[i]):
                i += 1
            start = i
        else:
            i += 1
    if in_string:
        raise TealSyntaxError("unterminated string literal")
    if start != i:
        toks.append(line[start:i])
    return toks, None


# --------------------------------------------------------------------------- literals


def parse_string_literal(tok: str) -> bytes:
    """Decode a double-quoted TEAL string literal to bytes (source text is UTF-8)."""
    raw = tok.encode("utf-8", "surrogatepass")
    if len(raw) < 2 or raw[0:1] != b'"' or raw[-1:] != b'"':
        raise TealSyntaxError("no quotes")
    out = bytearray()
    pos = 1
    end = len(raw) - 1
    esc = False
    hexseq = False
    while pos < end:
        ch = raw[pos]
        if ch == 0x5C and not esc:
            if hexseq:
                raise TealSyntaxError("escape seq inside hex number")
            esc = True
            pos += 1
            continue
        if esc:
            esc = False
            if ch == ord("n"):
                ch = 10
            elif ch == ord("r"):
                ch = 13
            elif ch == ord("t"):
                ch = 9
            elif ch == 0x5C:
                ch = 0x5C
            elif ch == ord('"'):
                ch = ord('"')
            elif ch == ord("x"):
                hexseq = True
                pos += 1
                continue
            else:
                raise TealSyntaxError("invalid escape seq \\%c" % ch)
        if hexseq:
            hexseq = False
            if pos >= len(raw) - 2:
                raise TealSyntaxError("non-terminated hex seq")
            try:
                ch = int(raw[pos : pos + 2].decode("ascii"), 16)
            except Exception:
                raise TealSyntaxError("bad hex seq")
            if not re.fullmatch(rb"[0-9a-fA-F]{2}", raw[pos : pos + 2]):
                raise TealSyntaxError("bad hex seq")
            pos += 1
        out.append(ch)
        pos += 1
    if esc or hexseq:
        raise TealSyntaxError("non-terminated escape seq")
    return bytes(out)


_B32_ALPH = set("ABCDEFGHIJKLMNOPQRSTUVWXYZ234567")
_B64_STD = set("ABCDEFGHIJKLMNOPQRSTUVWXYZabcdefghijklmnopqrstuvwxyz0123456789+/")
_B64_URL = set("ABCDEFGHIJKLMNOPQRSTUVWXYZabcdefghijklmnopqrstuvwxyz0123456789-_")


def decode_base32(s: str) -> bytes:
    """RFC 4648 base32, padding optional (the assembler strips '=' and decodes unpadded)."""
    core = s.rstrip("=")
    if not all(c in _B32_ALPH for c in core):
        raise TealSyntaxError("bad base32 alphabet")
    # padding, when present, must complete an 8-char quantum
    if len(core) != len(s):
        if len(s) % 8 != 0:
            raise TealSyntaxError("bad base32 padding")
    if len(core) % 8 in (1, 3, 6):
        raise TealSyntaxError("bad base32 length")
    padded = core + "=" * ((8 - len(core) % 8) % 8)
    try:
        return base64.b32decode(padded)
    except binascii.Error as e:
        raise TealSyntaxError("bad base32: %s" % e)


def decode_base64(s: str) -> bytes:
    """Assembler tries URL-safe then standard encoding (both padded forms)."""
    if len(s) % 4 != 0:
        raise TealSyntaxError("bad base64 length")
    core = s.rstrip("=")
    if len(s) - len(core) > 2:
        raise TealSyntaxError("bad base64 padding")
    if all(c in _B64_URL for c in core):
        try:
            return base64.urlsafe_b64decode(s)
        except binascii.Error:
            pass
    if all(c in _B64_STD for c in core):
        try:
            return base64.b64decode(s, validate=True)
        except binascii.Error as e:
            raise TealSyntaxError("bad base64: %s" % e)
    raise TealSyntaxError("bad base64 alphabet")


def decode_hex(s: str) -> bytes:
    if not (s.startswith("0x") or s.startswith("0X")):
        raise TealSyntaxError("hex literal must start with 0x")
    h = s[2:]
    if len(h) % 2 != 0 or not re.fullmatch(r"[0-9a-fA-F]*", h):
        raise TealSyntaxError("bad hex literal")
    return bytes.fromhex(h)


def checksum(pk: bytes) -> bytes:
    return hashlib.new("sha512_256", pk).digest()[-4:]


def decode_address(s: str) -> bytes:
    if len(s) != 58:
        raise TealSyntaxError("address must be 58 chars")
    raw = decode_base32(s)
    if len(raw) != 36:
        raise TealSyntaxError("address decodes to wrong length")
    pk, ck = raw[:32], raw[32:]
    if checksum(pk) != ck:
        raise TealSyntaxError("address checksum mismatch")
    # canonical encoding check (last char carries 4 zero pad bits)
    if base64.b32encode(raw).decode().rstrip("=") != s:
        raise TealSyntaxError("address not canonical")
    return pk


def encode_address(pk: bytes) -> str:
    return base64.b32encode(pk + checksum(pk)).decode().rstrip("=")


ON_COMPLETE = {
    "NoOp": 0,
    "OptIn": 1,
    "CloseOut": 2,
    "ClearState": 3,
    "UpdateApplication": 4,
    "DeleteApplication": 5,
}
TXN_TYPE = {
    "unknown": 0,
    "pay": 1,
    "keyreg": 2,
    "acfg": 3,
    "axfer": 4,
    "afrz": 5,
    "appl": 6,
}
NAMED_INTS = dict(ON_COMPLETE)
NAMED_INTS.update(TXN_TYPE)


@dataclass(frozen=True)
class Tmpl:
    """A template placeholder left symbolic (TMPL_*)."""

    name: str
    kind: str  # 'int' | 'bytes' | 'addr'


def parse_int_literal(tok: str) -> Union[int, Tmpl]:
    if tok.startswith("TMPL_"):
        return Tmpl(tok, "int")
    if tok in NAMED_INTS:
        return NAMED_INTS[tok]
    # Go strconv.ParseUint(s, 0, 64): 0x hex, 0 / 0o octal, 0b binary, underscores allowed w/ base 0
    s = tok
    try:
        if re.fullmatch(r"0[xX][0-9a-fA-F_]+", s):
            v = int(s.replace("_", ""), 16)
        elif re.fullmatch(r"0[bB][01_]+", s):
            v = int(s.replace("_", "")[2:], 2)
        elif re.fullmatch(r"0[oO][0-7_]+", s):
            v = int(s.replace("_", "")[2:], 8)
        elif re.fullmatch(r"0[0-7_]*", s):
            t = s.replace("_", "")
            v = int(t, 8) if len(t) > 1 else 0
        elif re.fullmatch(r"[1-9][0-9_]*", s):
            v = int(s.replace("_", ""))
        else:
            raise ValueError
    except ValueError:
        raise TealSyntaxError("bad int literal %r" % tok)
    if v >= 2**64:
        raise TealSyntaxError("int literal out of range")
    return v


def parse_bytes_args(args: List[str]) -> Tuple[Union[bytes, Tmpl], int]:
    """Decode a byte-literal starting at args[0]; returns (value, tokens consumed)."""
    if not args:
        raise TealSyntaxError("byte literal needs an argument")
    a = args[0]
    if a.startswith("TMPL_"):
        return Tmpl(a, "bytes"), 1
    if a in ("base32", "b32"):
        if len(args) < 2:
            raise TealSyntaxError("base32 needs a value")
        return decode_base32(args[1]), 2
    if a in ("base64", "b64"):
        if len(args) < 2:
            raise TealSyntaxError("base64 needs a value")
        return decode_base64(args[1]), 2
    m = re.fullmatch(r"(base32|b32)\((.*)\)", a)
    if m:
        return decode_base32(m.group(2)), 1
    m = re.fullmatch(r"(base64|b64)\((.*)\)", a)
    if m:
        return decode_base64(m.group(2)), 1
    if a.startswith("0x") or a.startswith("0X"):
        return decode_hex(a), 1
    if a.startswith('"'):
        return parse_string_literal(a), 1
    raise TealSyntaxError("byte arg did not parse: %r" % a)


def method_selector(sig: bytes) -> bytes:
    return hashlib.new("sha512_256", sig).digest()[:4]


# --------------------------------------------------------------------------- parser


@dataclass
class Instr:
    op: str
    args: List[str]
    line: int  # 0-based line index in the text
    # decoded constant for constant-loading ops (int | bytes | Tmpl), else None
    const: object = None
    comment: Optional[str] = None


@dataclass
class Program:
    version: int
    instrs: List[Instr]
    labels: Dict[str, int]  # label -> index in instrs of the next instruction (may == len)
    label_lines: Dict[str, int]
    lines: List[str]
    pragmas: List[Tuple[int, List[str]]] = field(default_factory=list)
    intcblock: Optional[List[object]] = None
    bytecblock: Optional[List[object]] = None
    comments: List[Tuple[int, str]] = field(default_factory=list)


_LABEL_RE = re.compile(r"^[^\s:]+$")

CONST_INT_OPS = {"int", "pushint"}
CONST_BYTES_OPS = {"byte", "pushbytes"}


def parse(text: str) -> Program:
    lines = text.split("\n")
    instrs: List[Instr] = []
    labels: Dict[str, int] = {}
    label_lines: Dict[str, int] = {}
    pragmas: List[Tuple[int, List[str]]] = []
    comments: List[Tuple[int, str]] = []
    version: Optional[int] = None
    seen_code = False
    prog = Program(0, instrs, labels, label_lines, lines, pragmas)
    prog.comments = comments
    for ln, line in enumerate(lines):
        if line.endswith("\r"):
            line = line[:-1]  # bufio.ScanLines drops one trailing CR; any other CR is an ordinary character
        try:
            toks, comment = tokens_from_line(line)
        except TealSyntaxError as e:
            raise TealSyntaxError(e.msg, ln)
        if comment is not None:
            comments.append((ln, comment))
        if not toks:
            continue
        # split statements on ';'
        stmts: List[List[str]] = [[]]
        for t in toks:
            if t == ";":
                stmts.append([])
            else:
                stmts[-1].append(t)
        for st in stmts:
            if not st:
                continue
            if st[0].startswith("#pragma"):
                if st[0] != "#pragma":
                    raise TealSyntaxError("bad pragma", ln)
                if len(st) >= 3 and st[1] == "version":
                    if seen_code:
                        raise TealSyntaxError("#pragma version after code", ln)
                    if version is not None:
                        raise TealSyntaxError("duplicate #pragma version", ln)
                    if not re.fullmatch(r"[0-9]+", st[2]) or len(st) != 3:
                        raise TealSyntaxError("bad #pragma version", ln)
                    version = int(st[2])
                elif len(st) == 3 and st[1] == "typetrack" and st[2] in ("true", "false"):
                    pass
                else:
                    raise TealSyntaxError("unsupported pragma %r" % st, ln)
                pragmas.append((ln, st))
                continue
            # labels: first token ending with ':'
            while st and st[0].endswith(":") and len(st[0]) > 1:
                name = st[0][:-1]
                if not _LABEL_RE.match(name):
                    raise TealSyntaxError("bad label %r" % name, ln)
                if name in labels:
                    raise TealSyntaxError("duplicate label %r" % name, ln)
                labels[name] = len(instrs)
                label_lines[name] = ln
                st = st[1:]
                seen_code = True
            if not st:
                continue
            seen_code = True
            op, args = st[0], st[1:]
            ins = Instr(op, args, ln, None, comment)
            try:
                _decode_const(ins, prog)
            except TealSyntaxError as e:
                raise TealSyntaxError(e.msg, ln)
            instrs.append(ins)
    prog.version = version if version is not None else 1
    return prog


def _decode_const(ins: Instr, prog: Program) -> None:
    op, args = ins.op, ins.args
    if op in CONST_INT_OPS:
        if len(args) != 1:
            raise TealSyntaxError("%s needs one argument" % op)
        ins.const = parse_int_literal(args[0])
    elif op in CONST_BYTES_OPS:
        v, n = parse_bytes_args(args)
        if n != len(args):
            raise TealSyntaxError("%s: extra arguments" % op)
        ins.const = v
    elif op == "addr":
        if len(args) != 1:
            raise TealSyntaxError("addr needs one argument")
        if args[0].startswith("TMPL_"):
            ins.const = Tmpl(args[0], "addr")
        else:
            ins.const = decode_address(args[0])
    elif op == "method":
        if len(args) != 1:
            raise TealSyntaxError("method needs one argument")
        a = args[0]
        if not (len(a) > 1 and a[0] == '"' and a[-1] == '"'):
            raise TealSyntaxError("method argument must be quoted")
        ins.const = method_selector(parse_string_literal(a))
    elif op == "intcblock":
        if prog.intcblock is not None:
            # legal in the AVM (re-defines), pyteal never emits two
            pass
        prog.intcblock = [parse_int_literal(a) for a in args]
        ins.const = list(prog.intcblock)
    elif op == "bytecblock":
        vals = []
        rest = list(args)
        while rest:
            v, n = parse_bytes_args(rest)
            vals.append(v)
            rest = rest[n:]
        prog.bytecblock = vals
        ins.const = list(vals)


def strip_comments(text: str) -> List[str]:
    """Text with comments removed using the quote-aware tokenizer; blank lines dropped.
    Returns a list of canonical statement strings (tokens joined by one space)."""
    out = []
    for line in text.split("\n"):
        toks, _ = tokens_from_line(line)
        if toks:
            out.append(" ".join(toks))
    return out
