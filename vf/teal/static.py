"""Validity predicate over emitted TEAL text (C04): completeness and target-legality.

Independent of pyteal: parser.py for the grammar, langspec.py for the opcode/field tables, and a CFG
built here.  Only `sure` table entries produce judging issues; the rest are returned as unsure notes.
"""
from __future__ import annotations

from typing import Dict, List, Optional, Set, Tuple

from . import langspec as L
from . import parser as tp

TERMINATORS = {"return", "retsub", "err"}
BRANCHES = {"b", "bz", "bnz"}


class Cfg:
    """Instruction-level control-flow graph with routine regions."""

    def __init__(self, prog: tp.Program):
        self.prog = prog
        ins = prog.instrs
        n = len(ins)
        self.n = n
        self.succ: List[List[int]] = [[] for _ in range(n)]
        self.falls_off: Set[int] = set()  # instructions whose fall-through successor is past the end
        self.undefined: List[Tuple[int, str]] = []
        self.sub_entries: Dict[str, int] = {}
        self.callsites: List[Tuple[int, str]] = []
        for i, x in enumerate(ins):
            op = x.op
            nxt = i + 1
            if op in TERMINATORS:
                continue
            if op == "b":
                t = self._target(i, x.args[0] if x.args else None)
                if t is not None:
                    self.succ[i].append(t)
                continue
            if op in ("bz", "bnz"):
                t = self._target(i, x.args[0] if x.args else None)
                if t is not None:
                    self.succ[i].append(t)
            elif op in ("switch", "match"):
                for a in x.args:
                    t = self._target(i, a)
                    if t is not None:
                        self.succ[i].append(t)
            elif op == "callsub":
                lab = x.args[0] if x.args else None
                t = self._target(i, lab)
                if t is not None:
                    self.sub_entries[lab] = t
                    self.callsites.append((i, lab))
            if nxt >= n:
                self.falls_off.add(i)
            else:
                self.succ[i].append(nxt)
        # a target == n (label at the very end) is "past the end" as well
        self.entries_at: Dict[int, str] = {v: k for k, v in self.sub_entries.items()}

    def _target(self, i, lab) -> Optional[int]:
        if lab is None or lab not in self.prog.labels:
            self.undefined.append((i, str(lab)))
            return None
        t = self.prog.labels[lab]
        if t >= self.n:
            self.falls_off.add(i)
            return None
        return t

    def reach(self, start: int) -> Set[int]:
        """Instructions reachable from start without following callsub edges into callees."""
        seen = set()
        stack = [start]
        while stack:
            i = stack.pop()
            if i in seen or i >= self.n:
                continue
            seen.add(i)
            stack.extend(self.succ[i])
        return seen


def check_program(teal: str, version: int, mode: str) -> Tuple[List[L.Issue], List[L.Issue], Optional[tp.Program]]:
    """-> (judging issues, unsure notes, parsed program or None)"""
    sure: List[L.Issue] = []
    unsure: List[L.Issue] = []

    def add(iss: L.Issue):
        (sure if iss.sure else unsure).append(iss)

    lines = teal.split("\n")
    if not lines or lines[0] != "#pragma version %d" % version:
        add(L.Issue(0, "pragma", "first line is %r, expected '#pragma version %d'" % (lines[0] if lines else "", version)))
    try:
        prog = tp.parse(teal)
    except tp.TealSyntaxError as e:
        add(L.Issue(getattr(e, "line", 0) or 0, "syntax", "does not parse: %s" % e))
        return sure, unsure, None
    if prog.version != version:
        add(L.Issue(0, "pragma", "program declares version %d, requested %d" % (prog.version, version)))
    if not prog.instrs:
        add(L.Issue(0, "empty", "program has no instructions"))
        return sure, unsure, prog
    for ins in prog.instrs:
        for iss in L.check_instr(ins, version, mode, prog.labels):
            add(iss)
        # constant-block references must resolve
        if ins.op in ("intc", "intc_0", "intc_1", "intc_2", "intc_3"):
            idx = int(ins.args[0], 0) if ins.op == "intc" and ins.args and L._u8(ins.args[0]) is not None else (int(ins.op[-1]) if ins.op != "intc" else None)
            if idx is not None and (prog.intcblock is None or idx >= len(prog.intcblock)):
                add(L.Issue(ins.line, "const-index", "%s %s has no intcblock entry" % (ins.op, " ".join(ins.args))))
        if ins.op in ("bytec", "bytec_0", "bytec_1", "bytec_2", "bytec_3"):
            idx = int(ins.args[0], 0) if ins.op == "bytec" and ins.args and L._u8(ins.args[0]) is not None else (int(ins.op[-1]) if ins.op != "bytec" else None)
            if idx is not None and (prog.bytecblock is None or idx >= len(prog.bytecblock)):
                add(L.Issue(ins.line, "const-index", "%s %s has no bytecblock entry" % (ins.op, " ".join(ins.args))))
    if any(i.kind in ("unknown-op", "imm-count") for i in sure):
        return sure, unsure, prog
    cfg = Cfg(prog)
    for i, lab in cfg.undefined:
        # already reported by check_instr as 'label'
        pass
    # main region
    main = cfg.reach(0)
    for i in sorted(main):
        ins = prog.instrs[i]
        if ins.op == "retsub":
            add(L.Issue(ins.line, "cfg-retsub-in-main", "retsub reachable from the program entry without a callsub"))
        if i in cfg.falls_off:
            add(L.Issue(ins.line, "cfg-fall-off-end", "control can run off the end of the program after %s" % ins.op))
        if ins.op not in TERMINATORS and ins.op != "b" and (i + 1) in cfg.entries_at and (i + 1) in cfg.succ[i]:
            add(L.Issue(ins.line, "cfg-fall-into-routine", "main falls through into subroutine %s" % cfg.entries_at[i + 1]))
    for lab, e in sorted(cfg.sub_entries.items(), key=lambda kv: kv[1]):
        body = cfg.reach(e)
        for i in sorted(body):
            ins = prog.instrs[i]
            if i in cfg.falls_off:
                add(L.Issue(ins.line, "cfg-fall-off-end", "control can run off the end of the program inside %s" % lab))
            if ins.op not in TERMINATORS and ins.op != "b" and (i + 1) in cfg.entries_at and (i + 1) in cfg.succ[i] and cfg.entries_at[i + 1] != lab:
                add(L.Issue(ins.line, "cfg-fall-into-routine", "%s falls through into subroutine %s" % (lab, cfg.entries_at[i + 1])))
    # backward branches need v4
    if version < L.BACKJUMP_VERSION:
        for i, ins in enumerate(prog.instrs):
            if ins.op in BRANCHES and ins.args and ins.args[0] in prog.labels and prog.labels[ins.args[0]] <= i:
                add(L.Issue(ins.line, "backjump", "backward branch %s %s at version %d (< 4)" % (ins.op, ins.args[0], version)))
    # callsub/retsub need v4 - covered by op-version
    # proto must be the first instruction of a subroutine
    for i, ins in enumerate(prog.instrs):
        if ins.op == "proto" and i not in cfg.entries_at:
            add(L.Issue(ins.line, "proto-position", "proto is not the first instruction of a subroutine"))
    return sure, unsure, prog


def issue_key(i: L.Issue) -> str:
    return i.kind
