"""Hand-written AVM language table (independent of pyteal/ir/ops.py and the field enums).

Source: the AVM specification (TEAL_opcodes / langspec) as remembered and cross-checked against the
golden .teal corpus of the repository (selftest).  Entries carry `sure`; only sure entries may judge.

Signature letters: U = uint64, B = bytes, A = any.  For field-reading ops the pushed type comes from
the field table ('F' in the push string).
"""
from __future__ import annotations

from dataclasses import dataclass
from typing import Dict, List, Optional, Tuple

BOTH, APP, SIG = "both", "app", "sig"


@dataclass(frozen=True)
class OpSpec:
    name: str
    minv: int
    mode: str
    imms: Tuple[str, ...]
    pops: Optional[str]  # None = special (handled by the analyser)
    pushes: Optional[str]
    sure: bool = True
    mode_sure: bool = True


OPS: Dict[str, OpSpec] = {}


def _op(name, minv, mode, imms, pops, pushes, sure=True, mode_sure=True):
    OPS[name] = OpSpec(name, minv, mode, tuple(imms.split()) if imms else (), pops, pushes, sure, mode_sure)


# name, min version, mode, immediates, pops, pushes
_op("err", 1, BOTH, "", "", "")
_op("sha256", 1, BOTH, "", "B", "B")
_op("keccak256", 1, BOTH, "", "B", "B")
_op("sha512_256", 1, BOTH, "", "B", "B")
_op("ed25519verify", 1, BOTH, "", "BBB", "U", mode_sure=False)
for _n in ["+", "-", "/", "*", "<", ">", "<=", ">=", "&&", "||", "%", "|", "&", "^"]:
    _op(_n, 1, BOTH, "", "UU", "U")
_op("==", 1, BOTH, "", "AA", "U")
_op("!=", 1, BOTH, "", "AA", "U")
_op("!", 1, BOTH, "", "U", "U")
_op("len", 1, BOTH, "", "B", "U")
_op("itob", 1, BOTH, "", "U", "B")
_op("btoi", 1, BOTH, "", "B", "U")
_op("~", 1, BOTH, "", "U", "U")
_op("mulw", 1, BOTH, "", "UU", "UU")
_op("addw", 2, BOTH, "", "UU", "UU")
_op("divmodw", 4, BOTH, "", "UUUU", "UUUU")
_op("intcblock", 1, BOTH, "ints", "", "")
_op("intc", 1, BOTH, "u8", "", "U")
for _i in range(4):
    _op("intc_%d" % _i, 1, BOTH, "", "", "U")
_op("bytecblock", 1, BOTH, "bytess", "", "")
_op("bytec", 1, BOTH, "u8", "", "B")
for _i in range(4):
    _op("bytec_%d" % _i, 1, BOTH, "", "", "B")
_op("arg", 1, SIG, "u8", "", "B")
for _i in range(4):
    _op("arg_%d" % _i, 1, SIG, "", "", "B")
_op("txn", 1, BOTH, "txnf", "", "F")
_op("global", 1, BOTH, "globalf", "", "F")
_op("gtxn", 1, BOTH, "u8 txnf", "", "F")
_op("load", 1, BOTH, "u8", "", "A")
_op("store", 1, BOTH, "u8", "A", "")
_op("txna", 2, BOTH, "txnfa u8", "", "F")
_op("gtxna", 2, BOTH, "u8 txnfa u8", "", "F")
_op("gtxns", 3, BOTH, "txnf", "U", "F")
_op("gtxnsa", 3, BOTH, "txnfa u8", "U", "F")
_op("gload", 4, APP, "u8 u8", "", "A")
_op("gloads", 4, APP, "u8", "U", "A")
_op("gaid", 4, APP, "u8", "", "U")
_op("gaids", 4, APP, "", "U", "U")
_op("loads", 5, BOTH, "", "U", "A")
_op("stores", 5, BOTH, "", "UA", "")
_op("bnz", 1, BOTH, "label", "U", "")
_op("bz", 2, BOTH, "label", "U", "")
_op("b", 2, BOTH, "label", "", "")
_op("return", 2, BOTH, "", "U", "")
_op("assert", 3, BOTH, "", "U", "")
_op("bury", 8, BOTH, "u8", None, None)
_op("popn", 8, BOTH, "u8", None, None)
_op("dupn", 8, BOTH, "u8", None, None)
_op("pop", 1, BOTH, "", "A", "")
_op("dup", 1, BOTH, "", None, None)
_op("dup2", 2, BOTH, "", None, None)
_op("dig", 3, BOTH, "u8", None, None)
_op("swap", 3, BOTH, "", None, None)
_op("select", 3, BOTH, "", None, None)
_op("cover", 5, BOTH, "u8", None, None)
_op("uncover", 5, BOTH, "u8", None, None)
_op("concat", 2, BOTH, "", "BB", "B")
_op("substring", 2, BOTH, "u8 u8", "B", "B")
_op("substring3", 2, BOTH, "", "BUU", "B")
_op("getbit", 3, BOTH, "", "AU", "U")
_op("setbit", 3, BOTH, "", None, None)  # AUU -> same type as A
_op("getbyte", 3, BOTH, "", "BU", "U")
_op("setbyte", 3, BOTH, "", "BUU", "B")
_op("extract", 5, BOTH, "u8 u8", "B", "B")
_op("extract3", 5, BOTH, "", "BUU", "B")
_op("extract_uint16", 5, BOTH, "", "BU", "U")
_op("extract_uint32", 5, BOTH, "", "BU", "U")
_op("extract_uint64", 5, BOTH, "", "BU", "U")
_op("replace2", 7, BOTH, "u8", "BB", "B")
_op("replace3", 7, BOTH, "", "BUB", "B")
_op("base64_decode", 7, BOTH, "b64enc", "B", "B")
_op("json_ref", 7, BOTH, "jsontype", "BB", "A")
_op("balance", 2, APP, "", "A", "U")
_op("app_opted_in", 2, APP, "", "AU", "U")
_op("app_local_get", 2, APP, "", "AB", "A")
_op("app_local_get_ex", 2, APP, "", "AUB", "AU")
_op("app_global_get", 2, APP, "", "B", "A")
_op("app_global_get_ex", 2, APP, "", "UB", "AU")
_op("app_local_put", 2, APP, "", "ABA", "")
_op("app_global_put", 2, APP, "", "BA", "")
_op("app_local_del", 2, APP, "", "AB", "")
_op("app_global_del", 2, APP, "", "B", "")
_op("asset_holding_get", 2, APP, "assetholdf", "AU", "GU")
_op("asset_params_get", 2, APP, "assetparamf", "U", "GU")
_op("app_params_get", 5, APP, "appparamf", "U", "GU")
_op("acct_params_get", 6, APP, "acctparamf", "A", "GU")
_op("voter_params_get", 11, APP, "voterparamf", "A", "AU", sure=False)
_op("online_stake", 11, APP, "", "", "U", sure=False)
_op("min_balance", 3, APP, "", "A", "U")
_op("pushbytes", 3, BOTH, "bytes", "", "B")
_op("pushint", 3, BOTH, "int", "", "U")
_op("pushbytess", 8, BOTH, "bytess", None, None)
_op("pushints", 8, BOTH, "ints", None, None)
_op("ed25519verify_bare", 7, BOTH, "", "BBB", "U")
_op("callsub", 4, BOTH, "label", None, None)
_op("retsub", 4, BOTH, "", None, None)
_op("proto", 8, BOTH, "u8 u8", None, None)
_op("frame_dig", 8, BOTH, "i8", None, None)
_op("frame_bury", 8, BOTH, "i8", None, None)
_op("switch", 8, BOTH, "labels", "U", "")
_op("match", 8, BOTH, "labels", None, None)
_op("shl", 4, BOTH, "", "UU", "U")
_op("shr", 4, BOTH, "", "UU", "U")
_op("sqrt", 4, BOTH, "", "U", "U")
_op("bitlen", 4, BOTH, "", "A", "U")
_op("exp", 4, BOTH, "", "UU", "U")
_op("expw", 4, BOTH, "", "UU", "UU")
_op("bsqrt", 6, BOTH, "", "B", "B")
_op("divw", 6, BOTH, "", "UUU", "U")
_op("sha3_256", 7, BOTH, "", "B", "B")
for _n in ["b+", "b-", "b/", "b*", "b%", "b|", "b&", "b^"]:
    _op(_n, 4, BOTH, "", "BB", "B")
for _n in ["b<", "b>", "b<=", "b>=", "b==", "b!="]:
    _op(_n, 4, BOTH, "", "BB", "U")
_op("b~", 4, BOTH, "", "B", "B")
_op("bzero", 4, BOTH, "", "U", "B")
_op("log", 5, APP, "", "B", "")
_op("itxn_begin", 5, APP, "", "", "")
_op("itxn_field", 5, APP, "itxnf", "A", "")
_op("itxn_submit", 5, APP, "", "", "")
_op("itxn", 5, APP, "txnf", "", "F")
_op("itxna", 5, APP, "txnfa u8", "", "F")
_op("itxn_next", 6, APP, "", "", "")
_op("gitxn", 6, APP, "u8 txnf", "", "F")
_op("gitxna", 6, APP, "u8 txnfa u8", "", "F")
_op("txnas", 5, BOTH, "txnfa", "U", "F")
_op("gtxnas", 5, BOTH, "u8 txnfa", "U", "F")
_op("gtxnsas", 5, BOTH, "txnfa", "UU", "F")
_op("args", 5, SIG, "", "U", "B")
_op("gloadss", 6, APP, "", "UU", "A")
_op("itxnas", 6, APP, "txnfa", "U", "F")
_op("gitxnas", 6, APP, "u8 txnfa", "U", "F")
_op("ecdsa_verify", 5, BOTH, "ecdsa", "BBBBB", "U")
_op("ecdsa_pk_decompress", 5, BOTH, "ecdsa", "B", "BB")
_op("ecdsa_pk_recover", 5, BOTH, "ecdsa", "BUBB", "BB")
_op("vrf_verify", 7, BOTH, "vrfstd", "BBB", "BU", mode_sure=False)
_op("block", 7, BOTH, "blockf", "U", "A", mode_sure=False)
_op("box_create", 8, APP, "", "BU", "U")
_op("box_extract", 8, APP, "", "BUU", "B")
_op("box_replace", 8, APP, "", "BUB", "")
_op("box_del", 8, APP, "", "B", "U")
_op("box_len", 8, APP, "", "B", "UU")
_op("box_get", 8, APP, "", "B", "BU")
_op("box_put", 8, APP, "", "BB", "")
_op("box_splice", 10, APP, "", "BUUB", "")
_op("box_resize", 10, APP, "", "BU", "")
_op("ec_add", 10, BOTH, "ecgroup", "BB", "B")
_op("ec_scalar_mul", 10, BOTH, "ecgroup", "BB", "B")
_op("ec_pairing_check", 10, BOTH, "ecgroup", "BB", "U")
_op("ec_multi_scalar_mul", 10, BOTH, "ecgroup", "BB", "B")
_op("ec_subgroup_check", 10, BOTH, "ecgroup", "B", "U")
_op("ec_map_to", 10, BOTH, "ecgroup", "B", "B")
_op("mimc", 11, BOTH, "mimccfg", "B", "B", sure=False)
# pseudo-ops accepted by the assembler
_op("int", 1, BOTH, "int", "", "U")
_op("byte", 1, BOTH, "bytes", "", "B")
_op("addr", 1, BOTH, "addr", "", "B")
_op("method", 1, BOTH, "method", "", "B")

BACKJUMP_VERSION = 4

# ------------------------------------------------------------------ transaction fields
# name -> (type, min version, is_array, sure)
TXN_FIELDS: Dict[str, Tuple[str, int, bool, bool]] = {}


def _tf(names, typ, minv, arr=False, sure=True):
    for n in names.split():
        TXN_FIELDS[n] = (typ, minv, arr, sure)


_tf("Sender Note Lease Receiver CloseRemainderTo VotePK SelectionPK Type AssetSender AssetReceiver AssetCloseTo TxID", "B", 1)
_tf("Fee FirstValid LastValid Amount VoteFirst VoteLast VoteKeyDilution TypeEnum XferAsset AssetAmount GroupIndex", "U", 1)
_tf("FirstValidTime", "U", 7, sure=False)  # listed from v1 by some docs, functional at v7
_tf("ApplicationID OnCompletion NumAppArgs NumAccounts ConfigAsset ConfigAssetTotal ConfigAssetDecimals ConfigAssetDefaultFrozen FreezeAsset FreezeAssetFrozen", "U", 2)
_tf("ApprovalProgram ClearStateProgram RekeyTo ConfigAssetUnitName ConfigAssetName ConfigAssetURL ConfigAssetMetadataHash ConfigAssetManager ConfigAssetReserve ConfigAssetFreeze ConfigAssetClawback FreezeAssetAccount", "B", 2)
_tf("ApplicationArgs Accounts", "B", 2, True)
_tf("Assets Applications", "U", 3, True)
_tf("NumAssets NumApplications GlobalNumUint GlobalNumByteSlice LocalNumUint LocalNumByteSlice", "U", 3)
_tf("ExtraProgramPages", "U", 4)
_tf("Nonparticipation NumLogs CreatedAssetID CreatedApplicationID", "U", 5)
_tf("Logs", "B", 5, True)
_tf("LastLog StateProofPK", "B", 6)
_tf("ApprovalProgramPages ClearStateProgramPages", "B", 7, True)
_tf("NumApprovalProgramPages NumClearStateProgramPages", "U", 7)
_tf("RejectVersion", "U", 12, sure=False)

GLOBAL_FIELDS: Dict[str, Tuple[str, int, str, bool]] = {}


def _gf(names, typ, minv, mode=BOTH, sure=True):
    for n in names.split():
        GLOBAL_FIELDS[n] = (typ, minv, mode, sure)


_gf("MinTxnFee MinBalance MaxTxnLife GroupSize", "U", 1)
_gf("ZeroAddress", "B", 1)
_gf("LogicSigVersion", "U", 2)
_gf("Round LatestTimestamp CurrentApplicationID", "U", 2, APP)
_gf("CreatorAddress", "B", 3, APP)
_gf("CurrentApplicationAddress", "B", 5, APP)
_gf("GroupID", "B", 5)
_gf("OpcodeBudget", "U", 6)
_gf("CallerApplicationID", "U", 6, APP)
_gf("CallerApplicationAddress", "B", 6, APP)
_gf("AssetCreateMinBalance AssetOptInMinBalance", "U", 10)
_gf("GenesisHash", "B", 10)
_gf("PayoutsEnabled PayoutsGoOnlineFee PayoutsPercent PayoutsMinBalance PayoutsMaxBalance", "U", 11, BOTH, False)

ASSET_HOLDING_FIELDS = {"AssetBalance": ("U", 2), "AssetFrozen": ("U", 2)}
ASSET_PARAM_FIELDS = {
    "AssetTotal": ("U", 2),
    "AssetDecimals": ("U", 2),
    "AssetDefaultFrozen": ("U", 2),
    "AssetUnitName": ("B", 2),
    "AssetName": ("B", 2),
    "AssetURL": ("B", 2),
    "AssetMetadataHash": ("B", 2),
    "AssetManager": ("B", 2),
    "AssetReserve": ("B", 2),
    "AssetFreeze": ("B", 2),
    "AssetClawback": ("B", 2),
    "AssetCreator": ("B", 5),
}
APP_PARAM_FIELDS = {
    "AppApprovalProgram": ("B", 5),
    "AppClearStateProgram": ("B", 5),
    "AppGlobalNumUint": ("U", 5),
    "AppGlobalNumByteSlice": ("U", 5),
    "AppLocalNumUint": ("U", 5),
    "AppLocalNumByteSlice": ("U", 5),
    "AppExtraProgramPages": ("U", 5),
    "AppCreator": ("B", 5),
    "AppAddress": ("B", 5),
}
ACCT_PARAM_FIELDS = {
    "AcctBalance": ("U", 6),
    "AcctMinBalance": ("U", 6),
    "AcctAuthAddr": ("B", 6),
    "AcctTotalNumUint": ("U", 8),
    "AcctTotalNumByteSlice": ("U", 8),
    "AcctTotalExtraAppPages": ("U", 8),
    "AcctTotalAppsCreated": ("U", 8),
    "AcctTotalAppsOptedIn": ("U", 8),
    "AcctTotalAssetsCreated": ("U", 8),
    "AcctTotalAssets": ("U", 8),
    "AcctTotalBoxes": ("U", 8),
    "AcctTotalBoxBytes": ("U", 8),
}
ACCT_PARAM_UNSURE = {"AcctIncentiveEligible", "AcctLastProposed", "AcctLastHeartbeat"}
ECDSA_CURVES = {"Secp256k1": 5, "Secp256r1": 7}
B64_ENCODINGS = {"URLEncoding": 7, "StdEncoding": 7}
JSON_TYPES = {"JSONString": ("B", 7), "JSONUint64": ("U", 7), "JSONObject": ("B", 7)}
VRF_STANDARDS = {"VrfAlgorand": 7}
BLOCK_FIELDS = {"BlkSeed": ("B", 7), "BlkTimestamp": ("U", 7)}
BLOCK_FIELDS_UNSURE = {
    "BlkProposer", "BlkFeesCollected", "BlkBonus", "BlkBranch", "BlkFeeSink", "BlkProtocol",
    "BlkTxnCounter", "BlkProposerPayout",
}
EC_GROUPS = {"BN254g1": 10, "BN254g2": 10, "BLS12_381g1": 10, "BLS12_381g2": 10}

# fields that itxn_field may set (by min version). Effects fields and TxID/GroupIndex etc. cannot be set.
ITXN_SETTABLE_V5 = set(
    "Sender Fee Note Receiver Amount CloseRemainderTo Type TypeEnum XferAsset AssetAmount AssetSender "
    "AssetReceiver AssetCloseTo ConfigAsset ConfigAssetTotal ConfigAssetDecimals ConfigAssetDefaultFrozen "
    "ConfigAssetUnitName ConfigAssetName ConfigAssetURL ConfigAssetMetadataHash ConfigAssetManager "
    "ConfigAssetReserve ConfigAssetFreeze ConfigAssetClawback FreezeAsset FreezeAssetAccount FreezeAssetFrozen".split()
)
ITXN_SETTABLE_V6 = ITXN_SETTABLE_V5 | set(
    "VotePK SelectionPK StateProofPK VoteFirst VoteLast VoteKeyDilution Nonparticipation RekeyTo ApplicationID "
    "OnCompletion ApplicationArgs Accounts ApprovalProgram ClearStateProgram Assets Applications GlobalNumUint "
    "GlobalNumByteSlice LocalNumUint LocalNumByteSlice ExtraProgramPages".split()
)
ITXN_SETTABLE_V7 = ITXN_SETTABLE_V6 | {"ApprovalProgramPages", "ClearStateProgramPages"}
ITXN_NEVER = set(
    "FirstValid FirstValidTime LastValid Lease GroupIndex TxID NumAppArgs NumAccounts NumAssets NumApplications "
    "Logs NumLogs LastLog CreatedAssetID CreatedApplicationID NumApprovalProgramPages NumClearStateProgramPages".split()
)


@dataclass
class Issue:
    line: int
    kind: str
    msg: str
    sure: bool = True

    def __str__(self):
        return f"line {self.line + 1}: [{self.kind}{'' if self.sure else ' (unsure)'}] {self.msg}"


def _u8(tok: str) -> Optional[int]:
    try:
        v = int(tok, 0) if not tok.startswith("0") or tok == "0" or tok[:2].lower() in ("0x", "0b", "0o") else int(tok, 8)
    except ValueError:
        return None
    return v


def field_type(kind: str, name: str) -> str:
    if kind in ("txnf", "txnfa", "itxnf"):
        return TXN_FIELDS.get(name, ("A",))[0]
    if kind == "globalf":
        return GLOBAL_FIELDS.get(name, ("A",))[0]
    if kind == "assetholdf":
        return ASSET_HOLDING_FIELDS.get(name, ("A",))[0]
    if kind == "assetparamf":
        return ASSET_PARAM_FIELDS.get(name, ("A",))[0]
    if kind == "appparamf":
        return APP_PARAM_FIELDS.get(name, ("A",))[0]
    if kind == "acctparamf":
        return ACCT_PARAM_FIELDS.get(name, ("A",))[0]
    if kind == "jsontype":
        return JSON_TYPES.get(name, ("A",))[0]
    if kind == "blockf":
        return BLOCK_FIELDS.get(name, ("A",))[0]
    return "A"


def check_instr(ins, version: int, mode: str, labels) -> List[Issue]:
    """Validate one parsed instruction against the table. mode in {'app','sig'}."""
    out: List[Issue] = []
    spec = OPS.get(ins.op)
    if spec is None:
        return [Issue(ins.line, "unknown-op", "unknown opcode %r" % ins.op)]
    if spec.minv > version:
        out.append(Issue(ins.line, "op-version", "%s needs version %d > %d" % (ins.op, spec.minv, version), spec.sure))
    if spec.mode != BOTH and spec.mode != mode:
        out.append(Issue(ins.line, "op-mode", "%s not available in mode %s" % (ins.op, mode), spec.sure and spec.mode_sure))
    args = list(ins.args)
    imms = spec.imms
    # variable-length forms
    if imms in (("ints",), ("bytess",), ("labels",)):
        if imms == ("labels",):
            for a in args:
                if a not in labels:
                    out.append(Issue(ins.line, "label", "undefined label %r" % a))
        return out
    if imms in (("int",), ("bytes",), ("addr",), ("method",)):
        # literal decoded by the parser already (a failure there is a syntax error)
        return out
    if len(args) != len(imms):
        out.append(Issue(ins.line, "imm-count", "%s expects %d immediates, got %r" % (ins.op, len(imms), args)))
        return out
    for kind, a in zip(imms, args):
        if kind == "u8":
            v = _u8(a)
            if v is None or not (0 <= v <= 255):
                out.append(Issue(ins.line, "imm-range", "%s immediate %r is not a uint8" % (ins.op, a)))
        elif kind == "i8":
            try:
                v = int(a)
            except ValueError:
                v = None
            if v is None or not (-128 <= v <= 127):
                out.append(Issue(ins.line, "imm-range", "%s immediate %r is not an int8" % (ins.op, a)))
        elif kind == "label":
            if a not in labels:
                out.append(Issue(ins.line, "label", "undefined label %r" % a))
        elif kind in ("txnf", "txnfa", "itxnf"):
            f = TXN_FIELDS.get(a)
            if f is None:
                out.append(Issue(ins.line, "field", "unknown txn field %r" % a))
                continue
            typ, minv, arr, sure = f
            if minv > version:
                out.append(Issue(ins.line, "field-version", "txn field %s needs version %d > %d" % (a, minv, version), sure))
            if kind == "txnfa" and not arr:
                out.append(Issue(ins.line, "field-array", "%s used with non-array field %s" % (ins.op, a), sure))
            if kind == "txnf" and arr:
                out.append(Issue(ins.line, "field-array", "%s used with array field %s" % (ins.op, a), sure))
            if kind == "itxnf":
                if a in ITXN_NEVER:
                    out.append(Issue(ins.line, "itxn-field", "itxn_field cannot set %s" % a))
                else:
                    allowed = ITXN_SETTABLE_V5 if version == 5 else (ITXN_SETTABLE_V6 if version == 6 else ITXN_SETTABLE_V7)
                    if a not in allowed:
                        out.append(Issue(ins.line, "itxn-field", "itxn_field %s not settable at v%d" % (a, version), False))
            if kind in ("txnf", "txnfa") and ins.op in ("txn", "txna", "txnas", "gtxn", "gtxna", "gtxnas", "gtxns", "gtxnsa", "gtxnsas"):
                if a in ("Logs", "NumLogs", "LastLog", "CreatedAssetID", "CreatedApplicationID") and ins.op.startswith("txn"):
                    # effects fields are not readable on the current transaction
                    out.append(Issue(ins.line, "field-effects", "%s %s reads an effects field of the current txn" % (ins.op, a), False))
        elif kind == "globalf":
            f = GLOBAL_FIELDS.get(a)
            if f is None:
                out.append(Issue(ins.line, "field", "unknown global field %r" % a))
                continue
            typ, minv, gmode, sure = f
            if minv > version:
                out.append(Issue(ins.line, "field-version", "global %s needs version %d > %d" % (a, minv, version), sure))
            if gmode != BOTH and gmode != mode:
                out.append(Issue(ins.line, "field-mode", "global %s not available in mode %s" % (a, mode), False))
        else:
            table = {
                "assetholdf": ASSET_HOLDING_FIELDS,
                "assetparamf": ASSET_PARAM_FIELDS,
                "appparamf": APP_PARAM_FIELDS,
                "acctparamf": ACCT_PARAM_FIELDS,
                "jsontype": JSON_TYPES,
                "blockf": BLOCK_FIELDS,
            }.get(kind)
            simple = {
                "ecdsa": ECDSA_CURVES,
                "b64enc": B64_ENCODINGS,
                "vrfstd": VRF_STANDARDS,
                "ecgroup": EC_GROUPS,
            }.get(kind)
            if table is not None:
                f = table.get(a)
                if f is None:
                    unsure = (kind == "acctparamf" and a in ACCT_PARAM_UNSURE) or (kind == "blockf" and a in BLOCK_FIELDS_UNSURE)
                    out.append(Issue(ins.line, "field", "unknown %s field %r" % (kind, a), not unsure))
                elif f[1] > version:
                    out.append(Issue(ins.line, "field-version", "%s needs version %d > %d" % (a, f[1], version)))
            elif simple is not None:
                if a not in simple:
                    out.append(Issue(ins.line, "field", "unknown %s %r" % (kind, a)))
                elif simple[a] > version:
                    out.append(Issue(ins.line, "field-version", "%s needs version %d" % (a, simple[a])))
    # paired range rules
    if ins.op == "substring" and not out:
        s, e = _u8(args[0]), _u8(args[1])
        if s is not None and e is not None and e < s:
            out.append(Issue(ins.line, "imm-range", "substring end %d before start %d" % (e, s)))
    if ins.op in ("gtxn", "gtxna", "gtxnas", "gload", "gaid", "gitxn", "gitxna", "gitxnas") and args:
        v = _u8(args[0])
        if v is not None and v > 15 and ins.op not in ("gload",):
            # group index immediates beyond the max group size are assembled but always fail; pyteal
            # rejects them at construction - report as unsure only
            out.append(Issue(ins.line, "imm-range", "%s group index %d > 15" % (ins.op, v), False))
    return out
