"""Canonical forms of TEAL programs for metamorphic comparison (C18).

level 1  `stream(prog)`: the executable instruction stream with comments dropped and labels alpha-renamed in order of
         first appearance (definition or use).
level 2  `layout_normal(prog)`: additionally independent of block *placement*: basic blocks, jumps threaded through
         empty blocks, unconditional jumps to the next instruction dropped, blocks emitted in canonical DFS order from the
         entry, subroutines in order of first call.  Two programs with equal level-2 forms execute the same instructions
         under the same branch conditions; they may differ only in where blocks were placed and which extra `b` that needs.
"""
from __future__ import annotations

from typing import Dict, List, Optional, Tuple

from . import parser as tp

BR = {"b", "bz", "bnz"}
TERM = {"return", "retsub", "err"}
CONST_OPS = {"int", "pushint", "byte", "pushbytes", "addr", "method", "intc", "intc_0", "intc_1", "intc_2", "intc_3", "bytec", "bytec_0", "bytec_1", "bytec_2", "bytec_3"}
SKIP_OPS = {"intcblock", "bytecblock"}


def _text(ins, prog, values: bool) -> str:
    """instruction text; with values=True constant-loading forms are replaced by the value they denote, so that
    `int 5`, `pushint 5` and `intc_1` (block entry 5) compare equal"""
    if values and ins.op in CONST_OPS:
        c = ins.const
        if ins.op.startswith("intc") or ins.op.startswith("bytec"):
            block = prog.intcblock if ins.op.startswith("intc") else prog.bytecblock
            idx = int(ins.args[0], 0) if ins.op in ("intc", "bytec") else int(ins.op[-1])
            c = block[idx] if block is not None and idx < len(block) else "UNRESOLVED:%s" % idx
        if isinstance(c, tp.Tmpl):
            return "const tmpl %s" % c.name
        if isinstance(c, (bytes, bytearray)):
            return "const bytes %s" % bytes(c).hex()
        return "const %s" % (c,)
    return " ".join([ins.op] + list(ins.args))


def stream(prog: tp.Program, skip: int = 0, values: bool = False) -> List[str]:
    ren: Dict[str, str] = {}

    def r(lab):
        if lab not in ren:
            ren[lab] = "L%d" % len(ren)
        return ren[lab]

    at: Dict[int, List[str]] = {}
    for lab, idx in prog.labels.items():
        at.setdefault(idx, []).append(lab)
    out = []
    for i, ins in enumerate(prog.instrs):
        for lab in sorted(at.get(i, []), key=lambda l: prog.label_lines[l]):
            out.append(r(lab) + ":")
        if i < skip or (values and ins.op in SKIP_OPS):
            continue
        if ins.op in BR or ins.op == "callsub":
            out.append("%s %s" % (ins.op, r(ins.args[0]) if ins.args else "?"))
        else:
            out.append(_text(ins, prog, values))
    for lab in sorted(at.get(len(prog.instrs), []), key=lambda l: prog.label_lines[l]):
        out.append(r(lab) + ":")
    return out


def layout_normal(prog: tp.Program, skip: int = 0, values: bool = False) -> List[str]:
    ins = prog.instrs
    n = len(ins)
    if n == 0:
        return []
    # block leaders
    leaders = {skip, 0}
    for lab, idx in prog.labels.items():
        if idx < n:
            leaders.add(idx)
    for i, x in enumerate(ins):
        if x.op in BR or x.op in TERM:
            if i + 1 < n:
                leaders.add(i + 1)
    order = sorted(l for l in leaders if l >= skip)
    bidx = {l: k for k, l in enumerate(order)}
    blocks = []  # (instrs(list of str), term)
    for k, l in enumerate(order):
        end = order[k + 1] if k + 1 < len(order) else n
        body = []
        term = None
        for i in range(l, end):
            x = ins[i]
            if x.op == "b":
                term = ("b", _tgt(prog, x, bidx, n))
            elif x.op in ("bz", "bnz"):
                tgt = _tgt(prog, x, bidx, n)
                fall = bidx.get(i + 1, "END") if i + 1 < n else "END"
                # polarity-normalised: (successor when the popped value is non-zero, successor when zero)
                term = ("cond", tgt, fall) if x.op == "bnz" else ("cond", fall, tgt)
            elif x.op in TERM:
                body.append(x.op)
                term = ("stop",)
            elif x.op == "callsub":
                body.append(("callsub", _tgt(prog, x, bidx, n)))
            elif values and x.op in SKIP_OPS:
                pass
            else:
                body.append(_text(x, prog, values))
        if term is None:
            term = ("b", bidx.get(end, "END") if end < n else "END")
        blocks.append((body, term))

    def thread(k, seen=()):
        # follow empty blocks with an unconditional successor
        while isinstance(k, int) and not blocks[k][0] and blocks[k][1][0] == "b" and k not in seen:
            seen = seen + (k,)
            k = blocks[k][1][1]
        return k

    out: List[str] = []
    num: Dict[int, int] = {}
    subs: List[int] = []
    sub_id: Dict[int, int] = {}

    def visit(start):
        stack = [thread(start)]
        while stack:
            k = stack.pop()
            if not isinstance(k, int) or k in num:
                continue
            num[k] = len(num)
            body, term = blocks[k]
            if term[0] == "b":
                stack.append(thread(term[1]))
            elif term[0] == "cond":
                # canonical: zero-successor numbered first, then the non-zero successor
                stack.append(thread(term[1]))
                stack.append(thread(term[2]))
            for it in body:
                if isinstance(it, tuple) and isinstance(it[1], int) and it[1] not in sub_id:
                    sub_id[it[1]] = len(sub_id)
                    subs.append(it[1])

    visit(bidx[skip] if skip in bidx else 0)
    done = 0
    while done < len(subs):
        visit(subs[done])
        done += 1
    # merge straight-line chains: a block with exactly one incoming edge, from an unconditional jump, is inlined
    preds: Dict[int, int] = {}
    for k in num:
        term = blocks[k][1]
        for t in (term[1:] if term[0] in ("b", "cond") else ()):
            t = thread(t)
            if isinstance(t, int):
                preds[t] = preds.get(t, 0) + 1
    entry_blocks = set(subs) | {thread(bidx[skip] if skip in bidx else 0)}
    inlined = set()
    chains: Dict[int, Tuple[list, tuple]] = {}
    for k, _ in sorted(num.items(), key=lambda kv: kv[1]):
        if k in inlined:
            continue
        body = list(blocks[k][0])
        term = blocks[k][1]
        while term[0] == "b":
            t = thread(term[1])
            if isinstance(t, int) and preds.get(t, 0) == 1 and t not in entry_blocks and t != k and t not in inlined:
                inlined.add(t)
                body += blocks[t][0]
                term = blocks[t][1]
            else:
                break
        chains[k] = (body, term)
    newnum = {k: i for i, k in enumerate(chains)}

    def nm(t):
        t = thread(t)
        return "B%d" % newnum[t] if isinstance(t, int) and t in newnum else str(t)

    for k, (body, term) in chains.items():
        out.append("B%d:" % newnum[k])
        for it in body:
            if isinstance(it, tuple):
                out.append("callsub S%s" % (sub_id.get(thread(it[1]) if isinstance(it[1], int) else it[1], sub_id.get(it[1], "?")) if isinstance(it[1], int) else it[1]))
            else:
                out.append(it)
        if term[0] == "b":
            out.append("-> %s" % nm(term[1]))
        elif term[0] == "cond":
            out.append("nonzero -> %s else %s" % (nm(term[1]), nm(term[2])))
    return out


def _tgt(prog, x, bidx, n):
    lab = x.args[0] if x.args else None
    if lab not in prog.labels:
        return "UNDEF:%s" % lab
    idx = prog.labels[lab]
    if idx >= n:
        return "END"
    return bidx.get(idx, "MID:%d" % idx)
