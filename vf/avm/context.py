"""Simulated transaction context and mutable world (ledger + effects) for the reference machine.

`Ctx` is plain data (JSON-able through to_json/from_json).  `World` is the per-run mutable state built
from a Ctx; its methods implement the AVM's environment-facing opcodes and are used both by the
TEAL interpreter and by the recipe evaluator (they are AVM semantics, not PyTeal's).
"""
from __future__ import annotations

import copy
from typing import Any, Dict, List, Optional

from .prims import Panic, Unsupported, is_b, is_u, want_b, want_u
from ..teal import langspec

ZERO_ADDR = bytes(32)
ADDR_FIELDS = set(
    "Sender Receiver CloseRemainderTo AssetSender AssetReceiver AssetCloseTo RekeyTo ConfigAssetManager "
    "ConfigAssetReserve ConfigAssetFreeze ConfigAssetClawback FreezeAssetAccount".split()
)
ZERO32_FIELDS = ADDR_FIELDS | {"VotePK", "SelectionPK", "Lease", "TxID", "ConfigAssetMetadataHash"}
TYPE_NAMES = ["unknown", "pay", "keyreg", "acfg", "axfer", "afrz", "appl"]


def enc(v):
    if isinstance(v, (bytes, bytearray)):
        return {"b": bytes(v).hex()}
    if isinstance(v, list):
        return [enc(x) for x in v]
    if isinstance(v, tuple):
        return {"t": [enc(x) for x in v]}
    if isinstance(v, dict):
        return {"d": [[enc(k), enc(x)] for k, x in v.items()]}
    return v


def dec(v):
    if isinstance(v, dict):
        if "b" in v and len(v) == 1:
            return bytes.fromhex(v["b"])
        if "t" in v and len(v) == 1:
            return tuple(dec(x) for x in v["t"])
        if "d" in v and len(v) == 1:
            return {dec(k): dec(x) for k, x in v["d"]}
    if isinstance(v, list):
        return [dec(x) for x in v]
    return v


class Ctx:
    """Immutable-by-convention description of the call."""

    def __init__(
        self,
        mode: str = "app",
        group: Optional[List[Dict[str, Any]]] = None,
        group_index: int = 0,
        args: Optional[List[bytes]] = None,
        globals_: Optional[Dict[str, Any]] = None,
        app_id: int = 1001,
        global_state: Optional[Dict[bytes, Any]] = None,
        local_state: Optional[Dict[Any, Dict[bytes, Any]]] = None,  # (addr, app_id) -> {key: val}
        other_global: Optional[Dict[int, Dict[bytes, Any]]] = None,  # app id -> state
        assets: Optional[Dict[int, Dict[str, Any]]] = None,
        holdings: Optional[Dict[Any, Dict[str, Any]]] = None,  # (addr, asset) -> fields
        apps: Optional[Dict[int, Dict[str, Any]]] = None,
        accounts: Optional[Dict[bytes, Dict[str, Any]]] = None,
        boxes: Optional[Dict[bytes, bytes]] = None,
    ):
        self.mode = mode
        self.group = group if group is not None else [{}]
        self.group_index = group_index
        self.args = args or []
        self.globals = globals_ or {}
        self.app_id = app_id
        self.global_state = global_state or {}
        self.local_state = local_state or {}
        self.other_global = other_global or {}
        self.assets = assets or {}
        self.holdings = holdings or {}
        self.apps = apps or {}
        self.accounts = accounts or {}
        self.boxes = boxes or {}

    def to_json(self):
        return enc(
            {
                "mode": self.mode,
                "group": self.group,
                "group_index": self.group_index,
                "args": self.args,
                "globals": self.globals,
                "app_id": self.app_id,
                "global_state": self.global_state,
                "local_state": self.local_state,
                "other_global": self.other_global,
                "assets": self.assets,
                "holdings": self.holdings,
                "apps": self.apps,
                "accounts": self.accounts,
                "boxes": self.boxes,
            }
        )

    @staticmethod
    def from_json(j) -> "Ctx":
        d = dec(j)
        return Ctx(
            d["mode"], d["group"], d["group_index"], d["args"], d["globals"], d["app_id"], d["global_state"],
            d["local_state"], d["other_global"], d["assets"], d["holdings"], d["apps"], d["accounts"], d["boxes"],
        )


def default_field(name: str):
    f = langspec.TXN_FIELDS.get(name)
    if f is None:
        raise Unsupported("unknown txn field " + name)
    if f[0] == "U":
        return 0
    if name == "StateProofPK":
        return bytes(64)
    if name in ZERO32_FIELDS:
        return bytes(32)
    return b""


class World:
    def __init__(self, ctx: Ctx):
        self.ctx = ctx
        self.mode = ctx.mode
        self.gstate = dict(ctx.global_state)
        self.lstate = {k: dict(v) for k, v in ctx.local_state.items()}
        self.boxes = dict(ctx.boxes)
        self.events: List[tuple] = []
        self.nlogs = 0
        self.logbytes = 0
        self.itxn_cur: Optional[List[List[tuple]]] = None  # group under construction
        self.itxn_groups: List[List[Dict[str, Any]]] = []
        self.itxn_total = 0

    # ---- transaction fields
    def txn(self) -> Dict[str, Any]:
        return self.ctx.group[self.ctx.group_index]

    def gtxn(self, i: int) -> Dict[str, Any]:
        if i >= len(self.ctx.group):
            raise Panic("BOUNDS", "gtxn index beyond group size")
        return self.ctx.group[i]

    def _scalar(self, t: Dict[str, Any], gi: int, name: str):
        f = langspec.TXN_FIELDS.get(name)
        if f is None:
            raise Unsupported("txn field " + name)
        if f[2]:
            raise Panic("FIELD", "array field read without index")
        if name == "GroupIndex":
            return gi
        if name == "NumAppArgs":
            return len(t.get("ApplicationArgs", []))
        if name == "NumAccounts":
            return len(t.get("Accounts", []))
        if name == "NumAssets":
            return len(t.get("Assets", []))
        if name == "NumApplications":
            return len(t.get("Applications", []))
        if name == "NumLogs":
            return len(t.get("Logs", []))
        if name == "NumApprovalProgramPages":
            return len(t.get("ApprovalProgramPages", []))
        if name == "NumClearStateProgramPages":
            return len(t.get("ClearStateProgramPages", []))
        if name == "Type" and "Type" not in t and "TypeEnum" in t:
            return TYPE_NAMES[t["TypeEnum"]].encode()
        if name == "TypeEnum" and "TypeEnum" not in t and "Type" in t:
            try:
                return TYPE_NAMES.index(t["Type"].decode())
            except Exception:
                return 0
        if name in t:
            return t[name]
        return default_field(name)

    def _array(self, t: Dict[str, Any], name: str, idx: int):
        f = langspec.TXN_FIELDS.get(name)
        if f is None or not f[2]:
            raise Panic("FIELD", "indexed read of non-array field " + name)
        arr = t.get(name, [])
        if name == "Accounts":
            if idx == 0:
                return t.get("Sender", ZERO_ADDR)
            idx -= 1
        elif name == "Applications":
            if idx == 0:
                return t.get("ApplicationID", 0)
            idx -= 1
        if idx >= len(arr):
            raise Panic("BOUNDS", "txna index beyond array length of " + name)
        return arr[idx]

    def txn_field(self, name: str):
        return self._scalar(self.txn(), self.ctx.group_index, name)

    def txn_array(self, name: str, idx: int):
        return self._array(self.txn(), name, want_u(idx))

    def gtxn_field(self, i: int, name: str):
        return self._scalar(self.gtxn(want_u(i)), i, name)

    def gtxn_array(self, i: int, name: str, idx: int):
        return self._array(self.gtxn(want_u(i)), name, want_u(idx))

    def global_field(self, name: str):
        g = self.ctx.globals
        if name == "GroupSize":
            return len(self.ctx.group)
        if name == "ZeroAddress":
            return ZERO_ADDR
        if name == "CurrentApplicationID":
            return self.ctx.app_id
        if name in g:
            return g[name]
        f = langspec.GLOBAL_FIELDS.get(name)
        if f is None:
            raise Unsupported("global field " + name)
        return 0 if f[0] == "U" else bytes(32)

    def arg(self, i: int):
        if i >= len(self.ctx.args):
            raise Panic("BOUNDS", "arg index beyond args")
        return self.ctx.args[i]

    # ---- references
    def resolve_account(self, v) -> bytes:
        if is_u(v):
            t = self.txn()
            if v == 0:
                return t.get("Sender", ZERO_ADDR)
            accts = t.get("Accounts", [])
            if v - 1 >= len(accts):
                raise Panic("BOUNDS", "account index beyond Accounts")
            return accts[v - 1]
        v = bytes(v)
        if len(v) != 32:
            raise Panic("OTHER", "account reference is not 32 bytes")
        return v

    def resolve_app(self, v) -> int:
        want_u(v)
        if v == 0:
            return self.ctx.app_id
        apps = self.txn().get("Applications", [])
        if v <= len(apps):
            return apps[v - 1]
        return v

    def resolve_asset(self, v) -> int:
        want_u(v)
        assets = self.txn().get("Assets", [])
        if v < len(assets):
            return assets[v]
        return v

    # ---- app state
    def _chk_key(self, k):
        k = want_b(k)
        if len(k) > 64:
            raise Panic("LIMIT", "state key longer than 64 bytes")
        return k

    def _chk_val(self, k, v):
        if is_b(v) and len(k) + len(v) > 128:
            raise Panic("LIMIT", "state key+value longer than 128 bytes")
        return v

    def app_global_get(self, k):
        k = want_b(k)
        return self.gstate.get(k, 0)

    def app_global_get_ex(self, app, k):
        k = want_b(k)
        aid = self.resolve_app(app)
        st = self.gstate if aid == self.ctx.app_id else self.ctx.other_global.get(aid, {})
        if k in st:
            return (st[k], 1)
        return (0, 0)

    def app_global_put(self, k, v):
        k = self._chk_key(k)
        self._chk_val(k, v)
        self.gstate[k] = v
        self.events.append(("gput", k, v))

    def app_global_del(self, k):
        k = want_b(k)
        self.gstate.pop(k, None)
        self.events.append(("gdel", k))

    def _local(self, addr, aid, create=False):
        key = (addr, aid)
        if key not in self.lstate:
            if not create:
                return None
            raise Panic("OTHER", "account not opted in")
        return self.lstate[key]

    def app_opted_in(self, acct, app):
        addr = self.resolve_account(acct)
        aid = self.resolve_app(app)
        return int((addr, aid) in self.lstate)

    def app_local_get(self, acct, k):
        addr = self.resolve_account(acct)
        k = want_b(k)
        st = self._local(addr, self.ctx.app_id)
        if st is None:
            raise Panic("OTHER", "account not opted in")
        return st.get(k, 0)

    def app_local_get_ex(self, acct, app, k):
        addr = self.resolve_account(acct)
        aid = self.resolve_app(app)
        k = want_b(k)
        st = self._local(addr, aid)
        if st is None or k not in st:
            return (0, 0)
        return (st[k], 1)

    def app_local_put(self, acct, k, v):
        addr = self.resolve_account(acct)
        k = self._chk_key(k)
        self._chk_val(k, v)
        st = self._local(addr, self.ctx.app_id, create=True)
        st[k] = v
        self.events.append(("lput", addr, k, v))

    def app_local_del(self, acct, k):
        addr = self.resolve_account(acct)
        k = want_b(k)
        st = self._local(addr, self.ctx.app_id, create=True)
        st.pop(k, None)
        self.events.append(("ldel", addr, k))

    # ---- ledger reads
    def balance(self, acct):
        addr = self.resolve_account(acct)
        return self.ctx.accounts.get(addr, {}).get("AcctBalance", 0)

    def min_balance(self, acct):
        addr = self.resolve_account(acct)
        return self.ctx.accounts.get(addr, {}).get("AcctMinBalance", 100000)

    def asset_holding_get(self, field, acct, asset):
        addr = self.resolve_account(acct)
        aid = self.resolve_asset(asset)
        h = self.ctx.holdings.get((addr, aid))
        if h is None:
            return (0, 0)
        return (h.get(field, 0), 1)

    def _params(self, table, spec, field, ident):
        p = table.get(ident)
        if p is None:
            return (0, 0)
        typ = spec[field][0]
        if field in p:
            return (p[field], 1)
        return ((0 if typ == "U" else (bytes(32) if field not in ("AssetUnitName", "AssetName", "AssetURL", "AppApprovalProgram", "AppClearStateProgram") else b"")), 1)

    def asset_params_get(self, field, asset):
        return self._params(self.ctx.assets, langspec.ASSET_PARAM_FIELDS, field, self.resolve_asset(asset))

    def app_params_get(self, field, app):
        return self._params(self.ctx.apps, langspec.APP_PARAM_FIELDS, field, self.resolve_app(app))

    def acct_params_get(self, field, acct):
        addr = self.resolve_account(acct)
        p = self.ctx.accounts.get(addr)
        if field not in langspec.ACCT_PARAM_FIELDS:
            raise Unsupported("acct_params_get " + field)
        typ = langspec.ACCT_PARAM_FIELDS[field][0]
        if p is None:
            return ((0 if typ == "U" else bytes(32)), 0)
        v = p.get(field, 0 if typ == "U" else bytes(32))
        funded = 1 if p.get("AcctBalance", 0) > 0 else 0
        return (v, funded)

    # ---- logs
    def log(self, b):
        b = want_b(b)
        self.nlogs += 1
        self.logbytes += len(b)
        if self.nlogs > 32:
            raise Panic("LIMIT", "too many log calls")
        if self.logbytes > 1024:
            raise Panic("LIMIT", "log bytes over 1024")
        self.events.append(("log", b))

    # ---- boxes (dict model)
    def _bname(self, n):
        n = want_b(n)
        if len(n) == 0 or len(n) > 64:
            raise Panic("LIMIT", "bad box name length")
        return n

    def box_create(self, n, size):
        n = self._bname(n)
        want_u(size)
        if size > 32768:
            raise Panic("LIMIT", "box too large")
        if n in self.boxes:
            if len(self.boxes[n]) != size:
                raise Panic("OTHER", "box exists with other size")
            return 0
        self.boxes[n] = bytes(size)
        self.events.append(("box_create", n, size))
        return 1

    def box_del(self, n):
        n = self._bname(n)
        if n in self.boxes:
            del self.boxes[n]
            self.events.append(("box_del", n))
            return 1
        return 0

    def box_len(self, n):
        n = self._bname(n)
        if n in self.boxes:
            return (len(self.boxes[n]), 1)
        return (0, 0)

    def box_get(self, n):
        n = self._bname(n)
        if n in self.boxes:
            if len(self.boxes[n]) > 4096:
                raise Panic("LIMIT", "box_get on box > 4096")
            return (self.boxes[n], 1)
        return (b"", 0)

    def box_put(self, n, v):
        n = self._bname(n)
        v = want_b(v)
        if n in self.boxes and len(self.boxes[n]) != len(v):
            raise Panic("OTHER", "box_put with different size")
        self.boxes[n] = v
        self.events.append(("box_put", n, v))

    def box_extract(self, n, s, l):
        n = self._bname(n)
        want_u(s), want_u(l)
        if n not in self.boxes:
            raise Panic("OTHER", "no such box")
        b = self.boxes[n]
        if s + l > len(b):
            raise Panic("BOUNDS", "box_extract range")
        if l > 4096:
            raise Panic("LIMIT", "box_extract too long")
        return b[s : s + l]

    def box_replace(self, n, s, v):
        n = self._bname(n)
        want_u(s)
        v = want_b(v)
        if n not in self.boxes:
            raise Panic("OTHER", "no such box")
        b = self.boxes[n]
        if s + len(v) > len(b):
            raise Panic("BOUNDS", "box_replace range")
        self.boxes[n] = b[:s] + v + b[s + len(v) :]
        self.events.append(("box_replace", n, s, v))

    # ---- inner transactions (recorded, not executed)
    def itxn_begin(self):
        if self.itxn_cur is not None:
            raise Panic("OTHER", "itxn_begin without itxn_submit")
        if self.itxn_total + 1 > 256:
            raise Panic("LIMIT", "too many inner transactions")
        self.itxn_cur = [{}]
        self._itxn_order = [[]]

    def itxn_next(self):
        if self.itxn_cur is None:
            raise Panic("OTHER", "itxn_next without itxn_begin")
        if len(self.itxn_cur) + 1 > 16:
            raise Panic("LIMIT", "inner group too large")
        self.itxn_cur.append({})
        self._itxn_order.append([])

    def itxn_field(self, name: str, v):
        if self.itxn_cur is None:
            raise Panic("OTHER", "itxn_field without itxn_begin")
        f = langspec.TXN_FIELDS.get(name)
        if f is None or name in langspec.ITXN_NEVER:
            raise Panic("FIELD", "itxn_field cannot set " + str(name))
        typ, _, arr, _ = f
        if typ == "U":
            want_u(v, "itxn_field " + name)
        else:
            v = want_b(v, "itxn_field " + name)
        t = self.itxn_cur[-1]
        if name in ADDR_FIELDS or name == "Accounts":
            if len(v) != 32:
                raise Panic("OTHER", "itxn_field %s not a 32-byte address" % name)
        if name in ("VotePK", "SelectionPK") and len(v) != 32:
            raise Panic("OTHER", "itxn_field %s must be 32 bytes" % name)
        if name == "StateProofPK" and len(v) != 64:
            raise Panic("OTHER", "itxn_field StateProofPK must be 64 bytes")
        if name == "ConfigAssetMetadataHash" and len(v) != 32:
            raise Panic("OTHER", "itxn_field ConfigAssetMetadataHash must be 32 bytes")
        if name == "TypeEnum":
            if not (1 <= v <= 6):
                raise Panic("OTHER", "itxn_field TypeEnum out of range")
        if name == "Type":
            if v.decode("latin-1") not in TYPE_NAMES[1:]:
                raise Panic("OTHER", "itxn_field Type unknown")
        if name == "OnCompletion" and v > 5:
            raise Panic("OTHER", "itxn_field OnCompletion out of range")
        if name in ("ConfigAssetDecimals",) and v > 19:
            raise Panic("OTHER", "decimals too large")
        if name in ("ConfigAssetDefaultFrozen", "FreezeAssetFrozen", "Nonparticipation") and v > 1:
            raise Panic("OTHER", "boolean field > 1")
        if name == "Note" and len(v) > 1024:
            raise Panic("LIMIT", "note too long")
        if arr:
            lst = t.setdefault(name, [])
            lst.append(v)
            if name == "ApplicationArgs":
                if len(lst) > 16:
                    raise Panic("LIMIT", "too many inner ApplicationArgs")
                if sum(len(x) for x in lst) > 2048:
                    raise Panic("LIMIT", "inner ApplicationArgs too long")
            if name == "Accounts" and len(lst) > 4:
                raise Panic("LIMIT", "too many inner Accounts")
            if name in ("Assets", "Applications") and len(lst) > 8:
                raise Panic("LIMIT", "too many inner foreign refs")
            if len(t.get("Accounts", [])) + len(t.get("Assets", [])) + len(t.get("Applications", [])) > 8:
                raise Panic("LIMIT", "too many inner references")
        else:
            t[name] = v
        self._itxn_order[-1].append((name, v))

    def itxn_submit(self):
        if self.itxn_cur is None:
            raise Panic("OTHER", "itxn_submit without itxn_begin")
        grp = self.itxn_cur
        self.itxn_total += len(grp)
        if self.itxn_total > 256:
            raise Panic("LIMIT", "too many inner transactions")
        self.itxn_groups.append(grp)
        self.events.append(("itxn", tuple(tuple(o) for o in self._itxn_order)))
        self.itxn_cur = None

    def itxn_read(self, gi: Optional[int], name: str, idx: Optional[int] = None):
        if not self.itxn_groups:
            raise Panic("OTHER", "no inner transaction submitted")
        grp = self.itxn_groups[-1]
        if gi is None:
            t, i = grp[-1], len(grp) - 1
        else:
            if gi >= len(grp):
                raise Panic("BOUNDS", "gitxn index beyond inner group")
            t, i = grp[gi], gi
        if idx is None:
            return self._scalar(t, i, name)
        return self._array(t, name, idx)
