"""Reference AVM interpreter over parsed TEAL text (subset PyTeal can emit)."""
from __future__ import annotations

from dataclasses import dataclass, field
from typing import Any, Callable, Dict, List, Optional, Tuple

from . import prims as P
from .prims import Panic, Unsupported, is_b, is_u, want_b, want_u
from .context import Ctx, World
from ..teal.parser import Program, Instr, Tmpl, parse
from ..teal import langspec


class BudgetExceeded(Exception):
    pass


@dataclass
class Frame:
    retpc: int
    height: int  # stack height at callsub
    label: str
    clear: bool = False
    args: int = 0
    returns: int = 0
    fp: int = 0
    snapshot: Optional[tuple] = None


@dataclass
class Result:
    verdict: str  # 'approve' | 'reject' | 'fail'
    value: Optional[int] = None
    panic: Optional[str] = None
    panic_msg: str = ""
    panic_line: int = -1
    events: List[tuple] = field(default_factory=list)
    scratch: Dict[int, Any] = field(default_factory=dict)
    steps: int = 0
    final_stack: Optional[List[Any]] = None
    trace: List[tuple] = field(default_factory=list)
    blocks: int = 0
    max_depth: int = 0
    uninit_loads: List[Tuple[int, int]] = field(default_factory=list)
    itxn_groups: List[list] = field(default_factory=list)

    def observable(self):
        if self.verdict == "fail":
            return ("fail",)
        return (self.verdict, self.value, tuple(self.events))


def _imm_int(tok: str) -> int:
    return int(tok, 0) if not (len(tok) > 1 and tok[0] == "0" and tok[1].isdigit()) else int(tok, 8)


class Machine:
    def __init__(
        self,
        prog: Program,
        ctx: Ctx,
        budget: int = 200_000,
        tmpl: Optional[Dict[str, Any]] = None,
        trace: bool = False,
        track_uninit: bool = False,
    ):
        self.prog = prog
        self.world = World(ctx)
        self.stack: List[Any] = []
        self.scratch: List[Any] = [0] * 256
        self.written = [False] * 256
        self.calls: List[Frame] = []
        self.pc = 0
        self.budget = budget
        self.steps = 0
        self.tmpl = tmpl or {}
        self.trace_on = trace
        self.trace: List[tuple] = []
        self.track_uninit = track_uninit
        self.uninit_loads: List[Tuple[int, int]] = []
        self.intc: List[Any] = []
        self.bytec: List[Any] = []
        self.max_depth = 0
        self.blocks = 1
        self.version = prog.version
        # label of instruction index -> names
        self.labels_at: Dict[int, List[str]] = {}
        for k, v in prog.labels.items():
            self.labels_at.setdefault(v, []).append(k)

    # -------------------------------------------------------------- stack helpers
    def push(self, v):
        if is_b(v):
            v = bytes(v)
            if len(v) > P.MAXB:
                raise Panic("LIMIT", "byte value longer than 4096")
        self.stack.append(v)
        if len(self.stack) > 1000:
            raise Panic("OVERFLOW_STACK", "stack deeper than 1000")

    def pop(self):
        if not self.stack:
            raise Panic("UNDERFLOW", "pop from empty stack")
        return self.stack.pop()

    def popu(self):
        return want_u(self.pop())

    def popb(self):
        return want_b(self.pop())

    def const(self, c):
        if isinstance(c, Tmpl):
            if c.name not in self.tmpl:
                raise Unsupported("template %s not substituted" % c.name)
            return self.tmpl[c.name]
        return c

    def jump(self, label: str):
        if label not in self.prog.labels:
            raise Panic("OTHER", "branch to undefined label " + label)
        self.pc = self.prog.labels[label]
        self.blocks += 1

    # -------------------------------------------------------------- run
    def run(self) -> Result:
        res = Result("fail")
        try:
            val = self._loop()
            res.verdict = "approve" if val != 0 else "reject"
            res.value = val
        except Panic as p:
            res.verdict = "fail"
            res.panic = p.kind
            res.panic_msg = p.msg
            res.panic_line = self.prog.instrs[self.pc_at].line if self.prog.instrs and self.pc_at < len(self.prog.instrs) else -1
        res.events = list(self.world.events) if res.verdict != "fail" else []
        res.scratch = {i: self.scratch[i] for i in range(256) if self.written[i]}
        res.steps = self.steps
        res.final_stack = list(self.stack)
        res.trace = self.trace
        res.itxn_groups = [[dict(t) for t in g] for g in self.world.itxn_groups] if res.verdict != "fail" else []
        res.blocks = self.blocks
        res.max_depth = self.max_depth
        res.uninit_loads = self.uninit_loads
        res.world = self.world
        return res

    def _loop(self) -> int:
        instrs = self.prog.instrs
        n = len(instrs)
        self.pc_at = 0
        while True:
            if self.pc >= n:
                # fell off the end: verdict is the single stack value
                self.pc_at = n - 1 if n else 0
                if len(self.stack) != 1:
                    raise Panic("OTHER", "program ended with stack height %d" % len(self.stack))
                return want_u(self.stack[-1])
            ins = instrs[self.pc]
            self.pc_at = self.pc
            self.pc += 1
            self.steps += 1
            if self.steps > self.budget:
                raise BudgetExceeded()
            h = HANDLERS.get(ins.op)
            if h is None:
                raise Unsupported("opcode " + ins.op)
            r = h(self, ins)
            if r is not None:
                return r


HANDLERS: Dict[str, Callable[[Machine, Instr], Optional[int]]] = {}


def op(*names):
    def deco(f):
        for n in names:
            HANDLERS[n] = f
        return f

    return deco


# ---- constants
@op("int", "pushint", "byte", "pushbytes", "addr", "method")
def _const(m, ins):
    m.push(m.const(ins.const))


@op("intcblock")
def _intcblock(m, ins):
    m.intc = list(ins.const)


@op("bytecblock")
def _bytecblock(m, ins):
    m.bytec = list(ins.const)


@op("intc", "intc_0", "intc_1", "intc_2", "intc_3")
def _intc(m, ins):
    i = _imm_int(ins.args[0]) if ins.op == "intc" else int(ins.op[-1])
    if i >= len(m.intc):
        raise Panic("BOUNDS", "intc index beyond block")
    m.push(m.const(m.intc[i]))


@op("bytec", "bytec_0", "bytec_1", "bytec_2", "bytec_3")
def _bytec(m, ins):
    i = _imm_int(ins.args[0]) if ins.op == "bytec" else int(ins.op[-1])
    if i >= len(m.bytec):
        raise Panic("BOUNDS", "bytec index beyond block")
    m.push(m.const(m.bytec[i]))


# ---- arithmetic
def _mk_bin(name, f):
    def h(m, ins):
        b = m.pop()
        a = m.pop()
        m.push(f(a, b))

    HANDLERS[name] = h


for _n, _f in P.BIN_U.items():
    _mk_bin(_n, _f)
for _n, _f in P.BIN_B.items():
    _mk_bin(_n, _f)


def _mk_un(name, f):
    def h(m, ins):
        m.push(f(m.pop()))

    HANDLERS[name] = h


for _n, _f in P.UNARY.items():
    _mk_un(_n, _f)

_mk_bin("concat", P.concat)
_mk_bin("getbit", P.getbit)
_mk_bin("getbyte", P.getbyte)
_mk_bin("extract_uint16", lambda a, s: P.extract_uint(a, s, 2))
_mk_bin("extract_uint32", lambda a, s: P.extract_uint(a, s, 4))
_mk_bin("extract_uint64", lambda a, s: P.extract_uint(a, s, 8))


@op("mulw", "addw", "expw")
def _wide2(m, ins):
    b = m.pop()
    a = m.pop()
    f = {"mulw": P.mulw, "addw": P.addw, "expw": P.expw}[ins.op]
    for v in f(a, b):
        m.push(v)


@op("divmodw")
def _divmodw(m, ins):
    d, c, b, a = m.pop(), m.pop(), m.pop(), m.pop()
    for v in P.divmodw(a, b, c, d):
        m.push(v)


@op("divw")
def _divw(m, ins):
    c, b, a = m.pop(), m.pop(), m.pop()
    m.push(P.divw(a, b, c))


@op("substring3", "extract3", "setbit", "setbyte", "replace3")
def _tern(m, ins):
    c, b, a = m.pop(), m.pop(), m.pop()
    f = {"substring3": P.substring3, "extract3": P.extract3, "setbit": P.setbit, "setbyte": P.setbyte, "replace3": P.replace}[ins.op]
    m.push(f(a, b, c))


@op("substring")
def _substring(m, ins):
    s, e = _imm_int(ins.args[0]), _imm_int(ins.args[1])
    m.push(P.substring3(m.pop(), s, e))


@op("extract")
def _extract(m, ins):
    s, l = _imm_int(ins.args[0]), _imm_int(ins.args[1])
    m.push(P.extract_imm(m.pop(), s, l))


@op("replace2")
def _replace2(m, ins):
    b, a = m.pop(), m.pop()
    m.push(P.replace(a, _imm_int(ins.args[0]), b))


@op("base64_decode")
def _b64(m, ins):
    m.push(P.base64_decode(ins.args[0], m.pop()))


@op("select")
def _select(m, ins):
    c, b, a = m.pop(), m.pop(), m.pop()
    want_u(c)
    m.push(b if c != 0 else a)


# ---- stack manipulation
@op("pop")
def _pop(m, ins):
    m.pop()


@op("popn")
def _popn(m, ins):
    n = _imm_int(ins.args[0])
    if n > len(m.stack):
        raise Panic("UNDERFLOW", "popn beyond stack")
    if n:
        del m.stack[-n:]


@op("dup")
def _dup(m, ins):
    v = m.pop()
    m.push(v)
    m.push(v)


@op("dupn")
def _dupn(m, ins):
    n = _imm_int(ins.args[0])
    v = m.pop()
    m.push(v)
    for _ in range(n):
        m.push(v)


@op("dup2")
def _dup2(m, ins):
    b, a = m.pop(), m.pop()
    for v in (a, b, a, b):
        m.push(v)


@op("dig")
def _dig(m, ins):
    n = _imm_int(ins.args[0])
    if n >= len(m.stack):
        raise Panic("UNDERFLOW", "dig beyond stack")
    m.push(m.stack[-1 - n])


@op("bury")
def _bury(m, ins):
    n = _imm_int(ins.args[0])
    if n == 0:
        raise Panic("OTHER", "bury 0")
    if n >= len(m.stack):
        raise Panic("UNDERFLOW", "bury beyond stack")
    v = m.stack[-1]
    m.stack[-1 - n] = v
    m.stack.pop()


@op("swap")
def _swap(m, ins):
    b, a = m.pop(), m.pop()
    m.push(b)
    m.push(a)


@op("cover")
def _cover(m, ins):
    n = _imm_int(ins.args[0])
    if n >= len(m.stack):
        raise Panic("UNDERFLOW", "cover beyond stack")
    v = m.stack.pop()
    m.stack.insert(len(m.stack) - n, v)


@op("uncover")
def _uncover(m, ins):
    n = _imm_int(ins.args[0])
    if n >= len(m.stack):
        raise Panic("UNDERFLOW", "uncover beyond stack")
    v = m.stack.pop(len(m.stack) - 1 - n)
    m.stack.append(v)


# ---- scratch
@op("load")
def _load(m, ins):
    i = _imm_int(ins.args[0])
    if i > 255:
        raise Panic("BOUNDS", "load slot > 255")
    if m.track_uninit and not m.written[i]:
        m.uninit_loads.append((i, ins.line))
    m.push(m.scratch[i])


@op("store")
def _store(m, ins):
    i = _imm_int(ins.args[0])
    if i > 255:
        raise Panic("BOUNDS", "store slot > 255")
    m.scratch[i] = m.pop()
    m.written[i] = True


@op("loads")
def _loads(m, ins):
    i = m.popu()
    if i > 255:
        raise Panic("BOUNDS", "loads slot > 255")
    if m.track_uninit and not m.written[i]:
        m.uninit_loads.append((i, ins.line))
    m.push(m.scratch[i])


@op("stores")
def _stores(m, ins):
    v = m.pop()
    i = m.popu()
    if i > 255:
        raise Panic("BOUNDS", "stores slot > 255")
    m.scratch[i] = v
    m.written[i] = True


# ---- control
@op("b")
def _b(m, ins):
    m.jump(ins.args[0])


@op("bz")
def _bz(m, ins):
    if m.popu() == 0:
        m.jump(ins.args[0])
    else:
        m.blocks += 1


@op("bnz")
def _bnz(m, ins):
    if m.popu() != 0:
        m.jump(ins.args[0])
    else:
        m.blocks += 1


@op("return")
def _return(m, ins):
    v = m.popu()
    if m.trace_on:
        m.trace.append(("return", tuple(m.stack), v))
    return v


@op("err")
def _err(m, ins):
    raise Panic("ERR", "err opcode")


@op("assert")
def _assert(m, ins):
    if m.popu() == 0:
        raise Panic("ASSERT", "assert failed")


@op("callsub")
def _callsub(m, ins):
    if len(m.calls) >= 8 and False:
        pass
    label = ins.args[0]
    fr = Frame(m.pc, len(m.stack), label)
    if m.trace_on:
        fr.snapshot = tuple(m.stack)
        m.trace.append(("callsub", label, fr.snapshot))
    m.calls.append(fr)
    m.max_depth = max(m.max_depth, len(m.calls))
    m.jump(label)
    m.after_callsub = m.pc


@op("proto")
def _proto(m, ins):
    if not m.calls:
        raise Panic("FRAME", "proto outside a subroutine")
    fr = m.calls[-1]
    if fr.clear or m.pc - 1 != m.prog.labels.get(fr.label):
        raise Panic("FRAME", "proto not the first instruction of the subroutine")
    a, r = _imm_int(ins.args[0]), _imm_int(ins.args[1])
    if len(m.stack) < a:
        raise Panic("UNDERFLOW", "proto: fewer stack values than arguments")
    fr.clear = True
    fr.args = a
    fr.returns = r
    fr.fp = len(m.stack)


@op("frame_dig")
def _frame_dig(m, ins):
    i = int(ins.args[0])
    if not m.calls:
        raise Panic("FRAME", "frame_dig with empty callstack")
    fr = m.calls[-1]
    if not fr.clear:
        raise Panic("FRAME", "frame_dig in subroutine without proto")
    idx = fr.fp + i
    if idx >= len(m.stack) or idx < fr.fp - fr.args:
        raise Panic("FRAME", "frame_dig outside of frame")
    m.push(m.stack[idx])


@op("frame_bury")
def _frame_bury(m, ins):
    i = int(ins.args[0])
    if not m.calls:
        raise Panic("FRAME", "frame_bury with empty callstack")
    fr = m.calls[-1]
    if not fr.clear:
        raise Panic("FRAME", "frame_bury in subroutine without proto")
    if not m.stack:
        raise Panic("UNDERFLOW", "frame_bury on empty stack")
    last = len(m.stack) - 1
    idx = fr.fp + i
    if idx >= last or idx < fr.fp - fr.args:
        raise Panic("FRAME", "frame_bury outside of frame")
    m.stack[idx] = m.stack[last]
    m.stack.pop()


@op("retsub")
def _retsub(m, ins):
    if not m.calls:
        raise Panic("FRAME", "retsub with empty callstack")
    fr = m.calls.pop()
    if fr.clear:
        sp = len(m.stack)
        if fr.fp + fr.returns > sp:
            raise Panic("FRAME", "retsub executed with stack below frame")
        argstart = fr.fp - fr.args
        # go-algorand opRetSub: copy(stack[argstart:], stack[fp : fp+returns]) - the return values are the FIRST
        # `returns` cells of the frame (indices 0..R-1), not the top of the stack
        rets = m.stack[fr.fp : fr.fp + fr.returns] if fr.returns else []
        del m.stack[argstart:]
        m.stack.extend(rets)
    if m.trace_on:
        m.trace.append(("retsub", fr.label, fr.snapshot, tuple(m.stack), fr.clear, fr.args, fr.returns))
    m.pc = fr.retpc
    m.blocks += 1


# ---- fields
@op("txn")
def _txn(m, ins):
    m.push(m.world.txn_field(ins.args[0]))


@op("txna")
def _txna(m, ins):
    m.push(m.world.txn_array(ins.args[0], _imm_int(ins.args[1])))


@op("txnas")
def _txnas(m, ins):
    m.push(m.world.txn_array(ins.args[0], m.popu()))


@op("gtxn")
def _gtxn(m, ins):
    m.push(m.world.gtxn_field(_imm_int(ins.args[0]), ins.args[1]))


@op("gtxna")
def _gtxna(m, ins):
    m.push(m.world.gtxn_array(_imm_int(ins.args[0]), ins.args[1], _imm_int(ins.args[2])))


@op("gtxnas")
def _gtxnas(m, ins):
    m.push(m.world.gtxn_array(_imm_int(ins.args[0]), ins.args[1], m.popu()))


@op("gtxns")
def _gtxns(m, ins):
    m.push(m.world.gtxn_field(m.popu(), ins.args[0]))


@op("gtxnsa")
def _gtxnsa(m, ins):
    m.push(m.world.gtxn_array(m.popu(), ins.args[0], _imm_int(ins.args[1])))


@op("gtxnsas")
def _gtxnsas(m, ins):
    idx = m.popu()
    t = m.popu()
    m.push(m.world.gtxn_array(t, ins.args[0], idx))


@op("global")
def _global(m, ins):
    m.push(m.world.global_field(ins.args[0]))


@op("arg", "arg_0", "arg_1", "arg_2", "arg_3")
def _arg(m, ins):
    if m.world.mode != "sig":
        raise Panic("OTHER", "arg in application mode")
    i = _imm_int(ins.args[0]) if ins.op == "arg" else int(ins.op[-1])
    m.push(m.world.arg(i))


@op("args")
def _args(m, ins):
    if m.world.mode != "sig":
        raise Panic("OTHER", "args in application mode")
    m.push(m.world.arg(m.popu()))


# ---- state
@op("app_global_get")
def _agg(m, ins):
    m.push(m.world.app_global_get(m.pop()))


@op("app_global_get_ex")
def _agge(m, ins):
    k = m.pop()
    a = m.pop()
    v, ok = m.world.app_global_get_ex(a, k)
    m.push(v)
    m.push(ok)


@op("app_global_put")
def _agp(m, ins):
    v = m.pop()
    k = m.pop()
    m.world.app_global_put(k, v)


@op("app_global_del")
def _agd(m, ins):
    m.world.app_global_del(m.pop())


@op("app_local_get")
def _alg(m, ins):
    k = m.pop()
    a = m.pop()
    m.push(m.world.app_local_get(a, k))


@op("app_local_get_ex")
def _alge(m, ins):
    k = m.pop()
    app = m.pop()
    a = m.pop()
    v, ok = m.world.app_local_get_ex(a, app, k)
    m.push(v)
    m.push(ok)


@op("app_local_put")
def _alp(m, ins):
    v = m.pop()
    k = m.pop()
    a = m.pop()
    m.world.app_local_put(a, k, v)


@op("app_local_del")
def _ald(m, ins):
    k = m.pop()
    a = m.pop()
    m.world.app_local_del(a, k)


@op("app_opted_in")
def _aoi(m, ins):
    app = m.pop()
    a = m.pop()
    m.push(m.world.app_opted_in(a, app))


@op("balance")
def _balance(m, ins):
    m.push(m.world.balance(m.pop()))


@op("min_balance")
def _min_balance(m, ins):
    m.push(m.world.min_balance(m.pop()))


@op("asset_holding_get")
def _ahg(m, ins):
    asset = m.pop()
    a = m.pop()
    v, ok = m.world.asset_holding_get(ins.args[0], a, asset)
    m.push(v)
    m.push(ok)


@op("asset_params_get")
def _apg(m, ins):
    v, ok = m.world.asset_params_get(ins.args[0], m.pop())
    m.push(v)
    m.push(ok)


@op("app_params_get")
def _appg(m, ins):
    v, ok = m.world.app_params_get(ins.args[0], m.pop())
    m.push(v)
    m.push(ok)


@op("acct_params_get")
def _acpg(m, ins):
    v, ok = m.world.acct_params_get(ins.args[0], m.pop())
    m.push(v)
    m.push(ok)


@op("log")
def _log(m, ins):
    m.world.log(m.pop())


# ---- boxes
@op("box_create")
def _bc(m, ins):
    s = m.pop()
    n = m.pop()
    m.push(m.world.box_create(n, s))


@op("box_del")
def _bd(m, ins):
    m.push(m.world.box_del(m.pop()))


@op("box_len")
def _bl(m, ins):
    v, ok = m.world.box_len(m.pop())
    m.push(v)
    m.push(ok)


@op("box_get")
def _bg(m, ins):
    v, ok = m.world.box_get(m.pop())
    m.push(v)
    m.push(ok)


@op("box_put")
def _bp(m, ins):
    v = m.pop()
    n = m.pop()
    m.world.box_put(n, v)


@op("box_extract")
def _be(m, ins):
    l = m.pop()
    s = m.pop()
    n = m.pop()
    m.push(m.world.box_extract(n, s, l))


@op("box_replace")
def _br(m, ins):
    v = m.pop()
    s = m.pop()
    n = m.pop()
    m.world.box_replace(n, s, v)


# ---- inner transactions
@op("itxn_begin")
def _ib(m, ins):
    m.world.itxn_begin()


@op("itxn_next")
def _in(m, ins):
    m.world.itxn_next()


@op("itxn_field")
def _if(m, ins):
    m.world.itxn_field(ins.args[0], m.pop())


@op("itxn_submit")
def _is(m, ins):
    m.world.itxn_submit()


@op("itxn")
def _itxn(m, ins):
    m.push(m.world.itxn_read(None, ins.args[0]))


@op("itxna")
def _itxna(m, ins):
    m.push(m.world.itxn_read(None, ins.args[0], _imm_int(ins.args[1])))


@op("itxnas")
def _itxnas(m, ins):
    m.push(m.world.itxn_read(None, ins.args[0], m.popu()))


@op("gitxn")
def _gitxn(m, ins):
    m.push(m.world.itxn_read(_imm_int(ins.args[0]), ins.args[1]))


@op("gitxna")
def _gitxna(m, ins):
    m.push(m.world.itxn_read(_imm_int(ins.args[0]), ins.args[1], _imm_int(ins.args[2])))


@op("gitxnas")
def _gitxnas(m, ins):
    m.push(m.world.itxn_read(_imm_int(ins.args[0]), ins.args[1], m.popu()))


def run_teal(text: str, ctx: Ctx, budget: int = 200_000, tmpl=None, trace=False, track_uninit=False) -> Result:
    prog = parse(text)
    return Machine(prog, ctx, budget, tmpl, trace, track_uninit).run()


def run_prog(prog: Program, ctx: Ctx, budget: int = 200_000, tmpl=None, trace=False, track_uninit=False) -> Result:
    return Machine(prog, ctx, budget, tmpl, trace, track_uninit).run()
