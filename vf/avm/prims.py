"""AVM primitive operation semantics (shared by the reference interpreter and the recipe evaluator).

The primitives are the AVM's, not PyTeal's; what the properties test is PyTeal's lowering.
Values: Python int in [0, 2**64) or bytes of length <= 4096.
"""
from __future__ import annotations

import base64
import hashlib
import math

U64 = 2**64
MAXB = 4096


class Panic(Exception):
    """The program fails at run time."""

    def __init__(self, kind: str, msg: str = ""):
        super().__init__(f"{kind}: {msg}")
        self.kind = kind
        self.msg = msg


class Unsupported(Exception):
    """Opcode or situation not modelled by the reference machine (case is discarded)."""


def is_u(v) -> bool:
    return isinstance(v, int) and not isinstance(v, bool)


def is_b(v) -> bool:
    return isinstance(v, (bytes, bytearray))


def want_u(v, what="operand"):
    if not is_u(v):
        raise Panic("TYPE", f"{what} is bytes, expected uint64")
    return v


def want_b(v, what="operand"):
    if not is_b(v):
        raise Panic("TYPE", f"{what} is uint64, expected bytes")
    return bytes(v)


def chk_b(b: bytes) -> bytes:
    if len(b) > MAXB:
        raise Panic("LIMIT", "byte value longer than 4096")
    return b


# ------------------------------------------------------------------ uint64


def add(a, b):
    r = want_u(a) + want_u(b)
    if r >= U64:
        raise Panic("ARITH", "+ overflow")
    return r


def sub(a, b):
    r = want_u(a) - want_u(b)
    if r < 0:
        raise Panic("ARITH", "- underflow")
    return r


def mul(a, b):
    r = want_u(a) * want_u(b)
    if r >= U64:
        raise Panic("ARITH", "* overflow")
    return r


def div(a, b):
    want_u(a)
    if want_u(b) == 0:
        raise Panic("ARITH", "/ by zero")
    return a // b


def mod(a, b):
    want_u(a)
    if want_u(b) == 0:
        raise Panic("ARITH", "% by zero")
    return a % b


def exp(a, b):
    want_u(a), want_u(b)
    if a == 0 and b == 0:
        raise Panic("ARITH", "0^0")
    if a in (0, 1):
        return a
    if b >= 64:
        raise Panic("ARITH", "exp overflow")
    r = a**b
    if r >= U64:
        raise Panic("ARITH", "exp overflow")
    return r


def expw(a, b):
    want_u(a), want_u(b)
    if a == 0 and b == 0:
        raise Panic("ARITH", "0^0")
    if a in (0, 1):
        r = a
    else:
        if b >= 128:
            raise Panic("ARITH", "expw overflow")
        r = a**b
        if r >= 2**128:
            raise Panic("ARITH", "expw overflow")
    return (r >> 64, r & (U64 - 1))


def shl(a, b):
    want_u(a)
    if want_u(b) >= 64:
        raise Panic("ARITH", "shl by >= 64")
    return (a << b) & (U64 - 1)


def shr(a, b):
    want_u(a)
    if want_u(b) >= 64:
        raise Panic("ARITH", "shr by >= 64")
    return a >> b


def isqrt(a):
    return math.isqrt(want_u(a))


def bitlen(a):
    if is_u(a):
        return a.bit_length()
    return int.from_bytes(a, "big").bit_length()


def mulw(a, b):
    r = want_u(a) * want_u(b)
    return (r >> 64, r & (U64 - 1))


def addw(a, b):
    r = want_u(a) + want_u(b)
    return (r >> 64, r & (U64 - 1))


def divmodw(a, b, c, d):
    for x in (a, b, c, d):
        want_u(x)
    n = (a << 64) | b
    m = (c << 64) | d
    if m == 0:
        raise Panic("ARITH", "divmodw by zero")
    q, r = divmod(n, m)
    return (q >> 64, q & (U64 - 1), r >> 64, r & (U64 - 1))


def divw(a, b, c):
    for x in (a, b, c):
        want_u(x)
    if c == 0:
        raise Panic("ARITH", "divw by zero")
    q = ((a << 64) | b) // c
    if q >= U64:
        raise Panic("ARITH", "divw overflow")
    return q


def eq(a, b):
    if is_u(a) != is_u(b):
        raise Panic("TYPE", "== on mixed types")
    return 1 if (a == b if is_u(a) else bytes(a) == bytes(b)) else 0


def neq(a, b):
    return 1 - eq(a, b)


BIN_U = {
    "+": add,
    "-": sub,
    "*": mul,
    "/": div,
    "%": mod,
    "<": lambda a, b: int(want_u(a) < want_u(b)),
    ">": lambda a, b: int(want_u(a) > want_u(b)),
    "<=": lambda a, b: int(want_u(a) <= want_u(b)),
    ">=": lambda a, b: int(want_u(a) >= want_u(b)),
    "&&": lambda a, b: int(want_u(a) != 0 and want_u(b) != 0) if (want_u(a) is not None and want_u(b) is not None) else 0,
    "||": lambda a, b: int(want_u(a) != 0 or want_u(b) != 0) if (want_u(a) is not None and want_u(b) is not None) else 0,
    "|": lambda a, b: want_u(a) | want_u(b),
    "&": lambda a, b: want_u(a) & want_u(b),
    "^": lambda a, b: want_u(a) ^ want_u(b),
    "==": eq,
    "!=": neq,
    "exp": exp,
    "shl": shl,
    "shr": shr,
}


def logic_and(a, b):
    want_u(a), want_u(b)
    return int(a != 0 and b != 0)


def logic_or(a, b):
    want_u(a), want_u(b)
    return int(a != 0 or b != 0)


BIN_U["&&"] = logic_and
BIN_U["||"] = logic_or


def lnot(a):
    return int(want_u(a) == 0)


def bnot(a):
    return want_u(a) ^ (U64 - 1)


# ------------------------------------------------------------------ bytes


def concat(a, b):
    return chk_b(want_b(a) + want_b(b))


def substring3(a, s, e):
    a = want_b(a)
    want_u(s), want_u(e)
    if e < s:
        raise Panic("BOUNDS", "substring end before start")
    if e > len(a):
        raise Panic("BOUNDS", "substring end beyond length")
    return a[s:e]


def extract3(a, s, l):
    a = want_b(a)
    want_u(s), want_u(l)
    if s > len(a) or s + l > len(a):
        raise Panic("BOUNDS", "extract range beyond length")
    return a[s : s + l]


def extract_imm(a, s, l):
    a = want_b(a)
    if l == 0:
        if s > len(a):
            raise Panic("BOUNDS", "extract start beyond length")
        return a[s:]
    return extract3(a, s, l)


def extract_uint(a, s, nbytes):
    a = want_b(a)
    want_u(s)
    if s + nbytes > len(a):
        raise Panic("BOUNDS", "extract_uint range beyond length")
    return int.from_bytes(a[s : s + nbytes], "big")


def getbyte(a, i):
    a = want_b(a)
    if want_u(i) >= len(a):
        raise Panic("BOUNDS", "getbyte index beyond length")
    return a[i]


def setbyte(a, i, v):
    a = want_b(a)
    want_u(i), want_u(v)
    if i >= len(a):
        raise Panic("BOUNDS", "setbyte index beyond length")
    if v > 255:
        raise Panic("ARITH", "setbyte value > 255")
    return a[:i] + bytes([v]) + a[i + 1 :]


def getbit(a, i):
    want_u(i)
    if is_u(a):
        if i >= 64:
            raise Panic("BOUNDS", "getbit index >= 64")
        return (a >> i) & 1
    a = bytes(a)
    if i >= 8 * len(a):
        raise Panic("BOUNDS", "getbit index beyond length")
    return (a[i // 8] >> (7 - i % 8)) & 1


def setbit(a, i, v):
    want_u(i), want_u(v)
    if v > 1:
        raise Panic("ARITH", "setbit value > 1")
    if is_u(a):
        if i >= 64:
            raise Panic("BOUNDS", "setbit index >= 64")
        return (a | (1 << i)) if v else (a & ~(1 << i) & (U64 - 1))
    a = bytes(a)
    if i >= 8 * len(a):
        raise Panic("BOUNDS", "setbit index beyond length")
    mask = 1 << (7 - i % 8)
    byte = a[i // 8]
    byte = (byte | mask) if v else (byte & ~mask & 0xFF)
    return a[: i // 8] + bytes([byte]) + a[i // 8 + 1 :]


def itob(a):
    return want_u(a).to_bytes(8, "big")


def btoi(a):
    a = want_b(a)
    if len(a) > 8:
        raise Panic("ARITH", "btoi on more than 8 bytes")
    return int.from_bytes(a, "big")


def blen(a):
    return len(want_b(a))


def bzero(n):
    if want_u(n) > MAXB:
        raise Panic("LIMIT", "bzero longer than 4096")
    return bytes(n)


def replace(a, s, b):
    a, b = want_b(a), want_b(b)
    want_u(s)
    if s + len(b) > len(a):
        raise Panic("BOUNDS", "replace range beyond length")
    return a[:s] + b + a[s + len(b) :]


def _bm(a):
    a = want_b(a)
    if len(a) > 64:
        raise Panic("LIMIT", "byte-math operand longer than 64 bytes")
    return int.from_bytes(a, "big")


def _bmout(v: int) -> bytes:
    return v.to_bytes((v.bit_length() + 7) // 8, "big")


def b_add(a, b):
    return _bmout(_bm(a) + _bm(b))


def b_sub(a, b):
    r = _bm(a) - _bm(b)
    if r < 0:
        raise Panic("ARITH", "b- underflow")
    return _bmout(r)


def b_mul(a, b):
    return _bmout(_bm(a) * _bm(b))


def b_div(a, b):
    x, y = _bm(a), _bm(b)
    if y == 0:
        raise Panic("ARITH", "b/ by zero")
    return _bmout(x // y)


def b_mod(a, b):
    x, y = _bm(a), _bm(b)
    if y == 0:
        raise Panic("ARITH", "b% by zero")
    return _bmout(x % y)


def _bbit(op):
    def f(a, b):
        a, b = want_b(a), want_b(b)
        if len(a) > 64 or len(b) > 64:
            raise Panic("LIMIT", "byte-math operand longer than 64 bytes")
        n = max(len(a), len(b))
        x, y = int.from_bytes(a, "big"), int.from_bytes(b, "big")
        return op(x, y).to_bytes(n, "big")

    return f


b_or = _bbit(lambda x, y: x | y)
b_and = _bbit(lambda x, y: x & y)
b_xor = _bbit(lambda x, y: x ^ y)


def b_not(a):
    a = want_b(a)
    if len(a) > 64:
        raise Panic("LIMIT", "byte-math operand longer than 64 bytes")
    return bytes(x ^ 0xFF for x in a)


def bsqrt(a):
    return _bmout(math.isqrt(_bm(a)))


BIN_B = {
    "b+": b_add,
    "b-": b_sub,
    "b*": b_mul,
    "b/": b_div,
    "b%": b_mod,
    "b|": b_or,
    "b&": b_and,
    "b^": b_xor,
    "b<": lambda a, b: int(_bm(a) < _bm(b)),
    "b>": lambda a, b: int(_bm(a) > _bm(b)),
    "b<=": lambda a, b: int(_bm(a) <= _bm(b)),
    "b>=": lambda a, b: int(_bm(a) >= _bm(b)),
    "b==": lambda a, b: int(_bm(a) == _bm(b)),
    "b!=": lambda a, b: int(_bm(a) != _bm(b)),
}


# ------------------------------------------------------------------ hashes


def sha256(a):
    return hashlib.sha256(want_b(a)).digest()


def sha512_256(a):
    return hashlib.new("sha512_256", want_b(a)).digest()


def sha3_256(a):
    return hashlib.sha3_256(want_b(a)).digest()


def keccak256(a):
    from Cryptodome.Hash import keccak

    return keccak.new(digest_bits=256, data=want_b(a)).digest()


def base64_decode(enc, a):
    a = want_b(a)
    try:
        if enc == "URLEncoding":
            if any(c in b"+/" for c in a):
                raise ValueError
            r = base64.urlsafe_b64decode(a)
        else:
            r = base64.b64decode(a, validate=True)
    except Exception:
        raise Panic("OTHER", "base64_decode failed")
    return r


UNARY = {
    "!": lnot,
    "~": bnot,
    "len": blen,
    "itob": itob,
    "btoi": btoi,
    "sqrt": isqrt,
    "bitlen": bitlen,
    "bzero": bzero,
    "b~": b_not,
    "bsqrt": bsqrt,
    "sha256": sha256,
    "sha512_256": sha512_256,
    "sha3_256": sha3_256,
    "keccak256": keccak256,
}
