"""C11 worker: runs one compilation history in THIS (fresh) interpreter and prints the results as JSON.

stdin: {"actions": [...], "target": {...}, "repeat": n}
action := {"a": "build", "item": I} | {"a": "compile", "item": I, "cfg": C} | {"a": "query", "item": I}
item   := {"k": "recipe", "recipe": R} | {"k": "router", "rc": RC} | {"k": "bad", "which": name}
Outputs {"target": [text, ...], "log": [...]} ; a compile result is TEAL text, or "ERROR:<type>" for a PyTeal error.
"""
import json
import os
import sys

sys.path.insert(0, os.path.dirname(os.path.dirname(os.path.abspath(__file__))))
from vf import env  # noqa: E402

pt = env.import_pyteal()
from vf import diff  # noqa: E402
from vf.recipe.build import Builder  # noqa: E402
from vf.router import build as RB  # noqa: E402

PT_ERRORS = diff.pyteal_errors()


def bad_program(which):
    """builders whose compilation fails (each creates all its objects afresh)"""
    if which == "type-error-in-fp-subroutine":
        @pt.Subroutine(pt.TealType.uint64)
        def boom(x):
            a = pt.abi.Uint64()
            return pt.Seq(a.set(x), pt.Bytes("a") + pt.Int(1))

        return boom(pt.Int(1)), pt.Mode.Application
    if which == "load-before-store":
        v = pt.ScratchVar(pt.TealType.uint64)
        return pt.Seq(pt.If(pt.Txn.fee()).Then(v.store(pt.Int(1))), v.load()), pt.Mode.Application
    if which == "too-many-slots":
        vs = [pt.ScratchVar(pt.TealType.uint64) for _ in range(258)]
        return pt.Seq(*[v.store(pt.Int(1)) for v in vs], vs[0].load()), pt.Mode.Application
    if which == "byref-recursion":
        @pt.Subroutine(pt.TealType.none)
        def rec(x: pt.ScratchVar):
            return pt.Seq(x.store(pt.Int(1)), pt.If(pt.Txn.fee() > pt.Int(5)).Then(rec(x)))

        v = pt.ScratchVar(pt.TealType.uint64)
        return pt.Seq(v.store(pt.Int(0)), rec(v), v.load()), pt.Mode.Application
    if which == "cond-without-arms":
        return pt.Seq(pt.Pop(pt.Cond()), pt.Int(1)), pt.Mode.Application
    if which == "abi-in-fp-subroutine-then-version-error":
        @pt.Subroutine(pt.TealType.uint64)
        def f(x):
            a = pt.abi.String()
            return pt.Seq(a.set(pt.Bytes("x")), pt.Len(pt.JsonRef.as_string(a.get(), pt.Bytes("k"))) + x)

        return f(pt.Int(1)), pt.Mode.Application
    if which == "none-typed-main":
        return pt.Seq(pt.Pop(pt.Int(1))), pt.Mode.Application
    if which in ("fail-inside-while-body", "fail-inside-for-body"):
        # the failure (an op of a later version) is met while the BODY of a loop is being lowered; compiled at version 6
        v = pt.ScratchVar(pt.TealType.uint64)
        body = pt.Seq(pt.Pop(pt.Base64Decode.std(pt.Bytes("YQ=="))), pt.If(v.load() == pt.Int(9)).Then(pt.Break()), v.store(v.load() + pt.Int(1)))
        if which == "fail-inside-while-body":
            loop = pt.Seq(v.store(pt.Int(0)), pt.While(v.load() < pt.Int(3)).Do(body))
        else:
            loop = pt.For(v.store(pt.Int(0)), v.load() < pt.Int(3), v.store(v.load() + pt.Int(1))).Do(pt.Seq(pt.Pop(pt.Base64Decode.std(pt.Bytes("YQ=="))), pt.Continue()))
        return pt.Seq(loop, pt.Int(1)), pt.Mode.Application, 6
    raise KeyError(which)


def lib_program(which):
    """hand-written programs over API areas the recipe grammar does not reach (used as targets and in histories)"""
    if which == "break-outside-loop":
        return pt.Seq(pt.If(pt.Txn.fee()).Then(pt.Break()), pt.Int(1)), pt.Mode.Application
    if which == "continue-outside-loop":
        return pt.Seq(pt.If(pt.Txn.fee()).Then(pt.Continue()), pt.Int(1)), pt.Mode.Application
    if which == "break-in-subroutine-outside-loop":
        @pt.Subroutine(pt.TealType.none)
        def helper():
            return pt.Seq(pt.Pop(pt.Int(1)), pt.Break())

        v = pt.ScratchVar(pt.TealType.uint64)
        return pt.Seq(v.store(pt.Int(0)), pt.While(v.load() < pt.Int(2)).Do(pt.Seq(helper(), v.store(v.load() + pt.Int(1)))), pt.Int(1)), pt.Mode.Application
    if which in ("methodcall-pay-arg", "methodcall-two-txn-args"):
        pay = {
            pt.TxnField.type_enum: pt.TxnType.Payment,
            pt.TxnField.receiver: pt.Txn.sender(),
            pt.TxnField.amount: pt.Int(1000),
            pt.TxnField.fee: pt.Int(0),
            pt.TxnField.note: pt.Bytes("n"),
            pt.TxnField.close_remainder_to: pt.Global.zero_address(),
            pt.TxnField.rekey_to: pt.Global.zero_address(),
        }
        axfer = {
            pt.TxnField.type_enum: pt.TxnType.AssetTransfer,
            pt.TxnField.xfer_asset: pt.Int(5),
            pt.TxnField.asset_amount: pt.Int(7),
            pt.TxnField.asset_receiver: pt.Txn.sender(),
            pt.TxnField.fee: pt.Int(0),
            pt.TxnField.note: pt.Bytes("m"),
        }
        if which == "methodcall-pay-arg":
            sig, args = "deposit(pay,uint64)void", [pay, pt.Itob(pt.Int(5))]
        else:
            sig, args = "swap(axfer,pay,account,uint8)uint64", [axfer, pay, pt.Txn.sender(), pt.Bytes(b"\x03")]
        extra = {pt.TxnField.fee: pt.Int(0), pt.TxnField.note: pt.Bytes("outer"), pt.TxnField.on_completion: pt.OnComplete.NoOp}
        return pt.Seq(pt.InnerTxnBuilder.ExecuteMethodCall(app_id=pt.Int(1234), method_signature=sig, args=args, extra_fields=extra), pt.Int(1)), pt.Mode.Application
    if which == "execute-many-fields":
        f = {
            pt.TxnField.type_enum: pt.TxnType.AssetConfig, pt.TxnField.config_asset_total: pt.Int(10), pt.TxnField.config_asset_decimals: pt.Int(0),
            pt.TxnField.config_asset_unit_name: pt.Bytes("u"), pt.TxnField.config_asset_name: pt.Bytes("name"), pt.TxnField.config_asset_url: pt.Bytes("url"),
            pt.TxnField.config_asset_manager: pt.Txn.sender(), pt.TxnField.config_asset_reserve: pt.Txn.sender(), pt.TxnField.fee: pt.Int(0),
        }
        return pt.Seq(pt.InnerTxnBuilder.Execute(f), pt.Int(1)), pt.Mode.Application
    raise KeyError(which)


class Session:
    def __init__(self):
        self.built = {}
        self.builders = {}

    def begin(self, item, key):
        """create the program's variables and subroutine wrappers now, the body expression later"""
        if item["k"] == "recipe" and key not in self.built:
            self.builders[key] = Builder(item["recipe"], pt)

    def obj(self, item, key):
        if key in self.built:
            return self.built[key]
        if item["k"] == "recipe":
            b = self.builders.pop(key, None) or Builder(item["recipe"], pt)
            o = ("expr", b.build(), diff.mode_of(item["recipe"]), b)
        elif item["k"] == "router":
            o = ("router", RB.build_router(pt, item["rc"]))
        elif item["k"] == "lib":
            e, mode = lib_program(item["which"])
            o = ("expr", e, mode)
        else:
            bp = bad_program(item["which"])
            o = ("expr", bp[0], bp[1]) + ((None, bp[2]) if len(bp) > 2 else ())
        self.built[key] = o
        return o

    def compile(self, item, cfg, key, fresh=False):
        try:
            if fresh:
                self.built.pop(key, None)
            o = self.obj(item, key)
            opt = diff.optimize_of(cfg)
            if o[0] == "router":
                a, c, _contract = o[1].compile_program(version=cfg["version"], assemble_constants=bool(cfg.get("assemble")), optimize=opt)
                return a + "\n=====CLEAR=====\n" + c
            version = o[4] if len(o) > 4 else cfg["version"]  # some failing builders pin their version
            return pt.compileTeal(o[1], o[2], version=version, assembleConstants=bool(cfg.get("assemble")), optimize=opt)
        except PT_ERRORS as e:
            return "ERROR:%s" % type(e).__name__
        except RecursionError:
            return "ERROR:RecursionError"


def main():
    job = json.load(sys.stdin)
    s = Session()
    log = []
    for n, act in enumerate(job["actions"]):
        key = act.get("key", "h%d" % n)
        try:
            if act["a"] == "build":
                s.obj(act["item"], key)
                log.append("built")
            elif act["a"] == "query":
                o = s.obj(act["item"], key)
                # pure queries on a subroutine wrapper / expression
                if o[0] == "expr":
                    o[1].type_of()
                    o[1].has_return()
                    if len(o) > 3 and o[3] is not None:
                        for w in o[3].routines:
                            w.type_of()
                            if hasattr(w, "has_return"):
                                w.has_return()
                log.append("queried")
            elif act["a"] == "begin":
                s.begin(act["item"], key)
                log.append("begun")
            else:
                r = s.compile(act["item"], act["cfg"], key)
                log.append(r[:30] if r.startswith("ERROR") else "ok")
        except PT_ERRORS as e:
            log.append("ERROR:%s" % type(e).__name__)
    t = job["target"]
    out = []
    for i in range(job.get("repeat", 1)):
        out.append(s.compile(t["item"], t["cfg"], "target", fresh=(job.get("same_object", True) is False)))
    json.dump({"target": out, "log": log}, sys.stdout)


if __name__ == "__main__":
    main()
