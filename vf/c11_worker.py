"""C11 worker: runs one compilation history in THIS (fresh) interpreter and prints the results as JSON.

stdin: {"actions": [...], "target": {...}, "repeat": n}
action := {"a": "build", "item": I} | {"a": "compile", "item": I, "cfg": C} | {"a": "query", "item": I}
item   := {"k": "recipe", "recipe": R} | {"k": "router", "rc": RC} | {"k": "bad", "which": name}
Outputs {"target": [text, ...], "log": [...]} ; a compile result is TEAL text, or "ERROR:<type>" for a PyTeal error.
"""
import json
import os
import sys

sys.path.insert(0, os.path.dirname(os.path.dirname(os.path.abspath(__file__))))
from vf import env  # noqa: E402

pt = env.import_pyteal()
from vf import diff  # noqa: E402
from vf.recipe.build import Builder  # noqa: E402
from vf.router import build as RB  # noqa: E402

PT_ERRORS = diff.pyteal_errors()


def bad_program(which):
    """builders whose compilation fails (each creates all its objects afresh)"""
    if which == "type-error-in-fp-subroutine":
        @pt.Subroutine(pt.TealType.uint64)
        def boom(x):
            a = pt.abi.Uint64()
            return pt.Seq(a.set(x), pt.Bytes("a") + pt.Int(1))

        return boom(pt.Int(1)), pt.Mode.Application
    if which == "load-before-store":
        v = pt.ScratchVar(pt.TealType.uint64)
        return pt.Seq(pt.If(pt.Txn.fee()).Then(v.store(pt.Int(1))), v.load()), pt.Mode.Application
    if which == "too-many-slots":
        vs = [pt.ScratchVar(pt.TealType.uint64) for _ in range(258)]
        return pt.Seq(*[v.store(pt.Int(1)) for v in vs], vs[0].load()), pt.Mode.Application
    if which == "byref-recursion":
        @pt.Subroutine(pt.TealType.none)
        def rec(x: pt.ScratchVar):
            return pt.Seq(x.store(pt.Int(1)), pt.If(pt.Txn.fee() > pt.Int(5)).Then(rec(x)))

        v = pt.ScratchVar(pt.TealType.uint64)
        return pt.Seq(v.store(pt.Int(0)), rec(v), v.load()), pt.Mode.Application
    if which == "cond-without-arms":
        return pt.Seq(pt.Pop(pt.Cond()), pt.Int(1)), pt.Mode.Application
    if which == "abi-in-fp-subroutine-then-version-error":
        @pt.Subroutine(pt.TealType.uint64)
        def f(x):
            a = pt.abi.String()
            return pt.Seq(a.set(pt.Bytes("x")), pt.Len(pt.JsonRef.as_string(a.get(), pt.Bytes("k"))) + x)

        return f(pt.Int(1)), pt.Mode.Application
    if which == "none-typed-main":
        return pt.Seq(pt.Pop(pt.Int(1))), pt.Mode.Application
    raise KeyError(which)


class Session:
    def __init__(self):
        self.built = {}
        self.builders = {}

    def begin(self, item, key):
        """create the program's variables and subroutine wrappers now, the body expression later"""
        if item["k"] == "recipe" and key not in self.built:
            self.builders[key] = Builder(item["recipe"], pt)

    def obj(self, item, key):
        if key in self.built:
            return self.built[key]
        if item["k"] == "recipe":
            b = self.builders.pop(key, None) or Builder(item["recipe"], pt)
            o = ("expr", b.build(), diff.mode_of(item["recipe"]), b)
        elif item["k"] == "router":
            o = ("router", RB.build_router(pt, item["rc"]))
        else:
            e, mode = bad_program(item["which"])
            o = ("expr", e, mode)
        self.built[key] = o
        return o

    def compile(self, item, cfg, key, fresh=False):
        try:
            if fresh:
                self.built.pop(key, None)
            o = self.obj(item, key)
            opt = diff.optimize_of(cfg)
            if o[0] == "router":
                a, c, _contract = o[1].compile_program(version=cfg["version"], assemble_constants=bool(cfg.get("assemble")), optimize=opt)
                return a + "\n=====CLEAR=====\n" + c
            return pt.compileTeal(o[1], o[2], version=cfg["version"], assembleConstants=bool(cfg.get("assemble")), optimize=opt)
        except PT_ERRORS as e:
            return "ERROR:%s" % type(e).__name__
        except RecursionError:
            return "ERROR:RecursionError"


def main():
    job = json.load(sys.stdin)
    s = Session()
    log = []
    for n, act in enumerate(job["actions"]):
        key = act.get("key", "h%d" % n)
        try:
            if act["a"] == "build":
                s.obj(act["item"], key)
                log.append("built")
            elif act["a"] == "query":
                o = s.obj(act["item"], key)
                # pure queries on a subroutine wrapper / expression
                if o[0] == "expr":
                    o[1].type_of()
                    o[1].has_return()
                    if len(o) > 3:
                        for w in o[3].routines:
                            w.type_of()
                            if hasattr(w, "has_return"):
                                w.has_return()
                log.append("queried")
            elif act["a"] == "begin":
                s.begin(act["item"], key)
                log.append("begun")
            else:
                r = s.compile(act["item"], act["cfg"], key)
                log.append(r[:30] if r.startswith("ERROR") else "ok")
        except PT_ERRORS as e:
            log.append("ERROR:%s" % type(e).__name__)
    t = job["target"]
    out = []
    for i in range(job.get("repeat", 1)):
        out.append(s.compile(t["item"], t["cfg"], "target", fresh=(job.get("same_object", True) is False)))
    json.dump({"target": out, "log": log}, sys.stdout)


if __name__ == "__main__":
    main()
