"""PyTeal program builders for the ABI properties (C06 set/encode, C07 decode/access)."""
# NOTE: no `from __future__ import annotations` (subroutine annotations must be real objects)
from typing import Any, List, Tuple

from hypothesis import strategies as st

from . import shapes as S

LEAF = {"bool", "byte", "uint", "address", "string", "sbytes", "dbytes"}


# --------------------------------------------------------------------------- C06: construction plans


@st.composite
def plan_strategy(draw, s):
    t = s[0]
    if t in LEAF:
        modes = ["py", "py", "expr", "arg", "copy"]
        if t in ("address",):
            modes += ["py-str"]
        if t in ("string",):
            modes += ["py-bytes"]
        if t in ("sbytes", "dbytes", "address", "string"):
            modes += ["byte-seq"]
        return draw(st.sampled_from(modes))
    kids = [draw(plan_strategy(m)) for m in (S.members(s) if t in ("tuple", "named") else [s[1]] * 1)]
    if t in ("sa", "da"):
        # one plan per element is decided at build time from the value length: reuse kid plan cyclically
        return {"mode": draw(st.sampled_from(["members", "members", "copy"])), "kid": kids[0]}
    # Tuple.set takes the member values (or a ComputedValue); there is no copy-from-instance form
    return {"mode": "members", "kids": kids}


class SetBuilder:
    """Builds `instance.set(...)` statements for a (shape, value, plan); collects app args it needs."""

    def __init__(self, pt, args: List[bytes]):
        self.pt = pt
        self.args = args  # application args (index 0.. as given), appended to on demand

    def _arg(self, data: bytes):
        if len(self.args) >= 15:
            return None
        self.args.append(data)
        return self.pt.Txn.application_args[len(self.args) - 1]

    def leaf_expr(self, s, v, use_arg):
        pt = self.pt
        t = s[0]
        if t in ("bool", "byte", "uint"):
            iv = int(v)
            if use_arg:
                a = self._arg(iv.to_bytes(8, "big"))
                if a is not None:
                    return pt.Btoi(a)
            return pt.Btoi(pt.Bytes(iv.to_bytes(8, "big")))
        data = v.encode("utf-8") if isinstance(v, str) else bytes(v)
        if use_arg:
            a = self._arg(data)
            if a is not None:
                return a
        h = len(data) // 2
        return pt.Concat(pt.Bytes(data[:h]), pt.Bytes(data[h:]))

    def make(self, s, v, plan) -> Tuple[Any, List[Any]]:
        pt = self.pt
        inst = S.pt_spec(pt, s).new_instance()
        t = s[0]
        if t in LEAF:
            mode = plan
            if mode == "copy":
                other, st0 = self.make(s, v, "py")
                return inst, st0 + [inst.set(other)]
            if mode == "byte-seq":
                data = v.encode("utf-8") if isinstance(v, str) else bytes(v)
                if len(data) <= 6 or t in ("address",) and False:
                    bs = []
                    stm = []
                    for b in data:
                        bi = pt.abi.Byte()
                        stm.append(bi.set(b))
                        bs.append(bi)
                    return inst, stm + [inst.set(bs)]
                mode = "py"
            if mode == "py":
                pv = v
                return inst, [inst.set(pv)]
            if mode == "py-str":
                from ..teal import parser as tp

                return inst, [inst.set(tp.encode_address(bytes(v)))]
            if mode == "py-bytes":
                return inst, [inst.set(v.encode("utf-8"))]
            return inst, [inst.set(self.leaf_expr(s, v, mode == "arg"))]
        if plan["mode"] == "copy":
            p2 = dict(plan, mode="members")
            other, st0 = self.make(s, v, p2)
            return inst, st0 + [inst.set(other)]
        stmts: List[Any] = []
        kids = []
        if t in ("sa", "da"):
            for x in v:
                ki, ks = self.make(s[1], x, plan["kid"])
                kids.append(ki)
                stmts += ks
            return inst, stmts + [inst.set(kids)]
        for m, x, kp in zip(S.members(s), v, plan["kids"]):
            ki, ks = self.make(m, x, kp)
            kids.append(ki)
            stmts += ks
        return inst, stmts + [inst.set(*kids)]


def build_set_program(pt, s, v, plan, backend: str):
    """-> (program Expr, app args). backend: 'main' | 'sub' (construction inside a Subroutine body)"""
    args: List[bytes] = []

    def body():
        b = SetBuilder(pt, args)
        inst, stmts = b.make(s, v, plan)
        return pt.Seq(*stmts, pt.Log(inst.encode()))

    if backend == "main":
        return pt.Seq(body(), pt.Int(1)), args

    @pt.Subroutine(pt.TealType.none, name="build_value")
    def build_value():
        return body()

    prog = pt.Seq(build_value(), pt.Int(1))
    # the subroutine body runs at compile time: args fill then. Force evaluation now so that args are known.
    return prog, args


# --------------------------------------------------------------------------- C07: access paths


@st.composite
def path_strategy(draw, s, v, max_steps=3):
    """-> (steps, final) ; steps: [["idx", i] | ["field", name] | ["elem", i, "const"|"dyn"]]"""
    steps = []
    cur_s, cur_v = s, v
    for _ in range(draw(st.sampled_from([0, 1, 1, 2, 2, 3, 3][: 2 * max_steps + 1]))):
        t = cur_s[0]
        if t in ("tuple", "named"):
            ms = S.members(cur_s)
            if not ms:
                break
            i = draw(st.integers(0, len(ms) - 1))
            if t == "named" and draw(st.booleans()):
                steps.append(["field", cur_s[1][i][0], i])
            else:
                steps.append(["idx", i])
            cur_s, cur_v = ms[i], cur_v[i]
        elif t in ("sa", "da"):
            if len(cur_v) == 0:
                break
            i = draw(st.integers(0, len(cur_v) - 1))
            steps.append(["elem", i, draw(st.sampled_from(["const", "dyn"]))])
            cur_s, cur_v = cur_s[1], cur_v[i]
        else:
            break
    t = cur_s[0]
    finals = ["encode"]
    if t in LEAF:
        finals += ["get", "get"]
    if t in ("sa", "da", "tuple", "named"):
        finals.append("length")
    return steps, draw(st.sampled_from(finals)), cur_s


def component(s, v, steps):
    cur_s, cur_v = s, v
    for stp in steps:
        if stp[0] == "idx":
            cur_s, cur_v = S.members(cur_s)[stp[1]], cur_v[stp[1]]
        elif stp[0] == "field":
            cur_s, cur_v = S.members(cur_s)[stp[2]], cur_v[stp[2]]
        else:
            cur_s, cur_v = cur_s[1], cur_v[stp[1]]
    return cur_s, cur_v


def expected_final(s, v, final) -> bytes:
    t = s[0]
    if final == "encode":
        return S.encode(s, v)
    if final == "length":
        return len(v).to_bytes(8, "big")
    if t in ("bool", "byte", "uint"):
        return int(v).to_bytes(8, "big")
    if t == "string":
        return v.encode("utf-8")
    return bytes(v)


def build_access_program(pt, s, steps, final, backend: str, dyn_indices: List[int], oob=None):
    """arg0 = encoding of the value; arg 1.. = computed indices (8-byte big endian).
    oob: None or (step position, index) replacing that elem step's index."""

    def body():
        inst = S.pt_spec(pt, s).new_instance()
        stmts = [inst.decode(pt.Txn.application_args[0])]
        cur, cur_s = inst, s
        argi = 1
        for pos, stp in enumerate(steps):
            if stp[0] in ("idx", "field"):
                i = stp[1] if stp[0] == "idx" else stp[2]
                child_s = S.members(cur_s)[i]
                cv = cur[i] if stp[0] == "idx" else getattr(cur, stp[1])
            else:
                child_s = cur_s[1]
                idx = stp[1]
                if stp[2] == "dyn":
                    cv = cur[pt.Btoi(pt.Txn.application_args[argi])]
                    argi += 1
                else:
                    cv = cur[idx]
            nxt = S.pt_spec(pt, child_s).new_instance()
            stmts.append(cv.store_into(nxt))
            cur, cur_s = nxt, child_s
        if final == "encode":
            out = cur.encode()
        elif final == "length":
            out = pt.Itob(cur.length())
        else:
            g = cur.get()
            out = pt.Itob(g) if cur_s[0] in ("bool", "byte", "uint") else g
        return pt.Seq(*stmts, pt.Log(out))

    if backend == "main":
        return pt.Seq(body(), pt.Int(1))

    @pt.Subroutine(pt.TealType.none, name="access_value")
    def access_value():
        return body()

    return pt.Seq(access_value(), pt.Int(1))
