"""ARC-4 type shapes as plain data, their PyTeal type specs, their algosdk reference types, values and builders.

Shape := ["bool"] | ["byte"] | ["uint", N] | ["address"] | ["string"] | ["sbytes", n] | ["dbytes"]
       | ["sa", elem, n] | ["da", elem] | ["tuple", [m...]] | ["named", [[field, m]...]]
"sbytes"/"dbytes" are PyTeal's StaticBytes/DynamicBytes spellings of byte[n]/byte[].
"""
# NOTE: no `from __future__ import annotations`: NamedTuple classes need real annotation objects.
import typing
from typing import Any, List

from hypothesis import strategies as st

_NT_COUNTER = [0]
_NT_CACHE = {}


def sdk_str(s) -> str:
    t = s[0]
    if t in ("bool", "byte", "address", "string"):
        return t
    if t == "uint":
        return "uint%d" % s[1]
    if t == "sbytes":
        return "byte[%d]" % s[1]
    if t == "dbytes":
        return "byte[]"
    if t == "sa":
        return "%s[%d]" % (sdk_str(s[1]), s[2])
    if t == "da":
        return "%s[]" % sdk_str(s[1])
    if t == "tuple":
        return "(%s)" % ",".join(sdk_str(m) for m in s[1])
    if t == "named":
        return "(%s)" % ",".join(sdk_str(m[1]) for m in s[1])
    raise ValueError(s)


def sdk_type(s):
    from algosdk import abi as sabi

    return sabi.ABIType.from_string(sdk_str(s))


def is_dynamic(s) -> bool:
    t = s[0]
    if t in ("string", "dbytes", "da"):
        return True
    if t == "sa":
        return is_dynamic(s[1])
    if t == "tuple":
        return any(is_dynamic(m) for m in s[1])
    if t == "named":
        return any(is_dynamic(m[1]) for m in s[1])
    return False


def members(s) -> List[Any]:
    if s[0] == "tuple":
        return list(s[1])
    if s[0] == "named":
        return [m[1] for m in s[1]]
    raise ValueError(s)


def depth(s) -> int:
    t = s[0]
    if t in ("sa", "da"):
        return 1 + depth(s[1])
    if t in ("tuple", "named"):
        return 1 + max([depth(m) for m in members(s)] + [0])
    return 0


def pt_spec(pt, s):
    abi = pt.abi
    t = s[0]
    if t == "bool":
        return abi.BoolTypeSpec()
    if t == "byte":
        return abi.ByteTypeSpec()
    if t == "uint":
        return {8: abi.Uint8TypeSpec, 16: abi.Uint16TypeSpec, 32: abi.Uint32TypeSpec, 64: abi.Uint64TypeSpec}[s[1]]()
    if t == "address":
        return abi.AddressTypeSpec()
    if t == "string":
        return abi.StringTypeSpec()
    if t == "sbytes":
        return abi.StaticBytesTypeSpec(s[1])
    if t == "dbytes":
        return abi.DynamicBytesTypeSpec()
    if t == "sa":
        return abi.StaticArrayTypeSpec(pt_spec(pt, s[1]), s[2])
    if t == "da":
        return abi.DynamicArrayTypeSpec(pt_spec(pt, s[1]))
    if t == "tuple":
        return abi.TupleTypeSpec(*[pt_spec(pt, m) for m in s[1]])
    if t == "named":
        import json

        key = json.dumps(s[1])
        cls = _NT_CACHE.get(key)
        if cls is None:
            # one class per distinct field list: NamedTupleTypeSpec equality requires the same class
            anns = {}
            for fname, m in s[1]:
                anns[fname] = abi.Field[pt_spec(pt, m).annotation_type()]
            _NT_COUNTER[0] += 1
            # all generated classes deliberately share one name/qualname (distinct classes, same spelling - what a
            # class factory in user code produces); identity, not the name, must decide type-spec equality
            cls = type("NT", (abi.NamedTuple,), {"__annotations__": anns})
            _NT_CACHE[key] = cls
        return cls().type_spec()
    raise ValueError(s)


# --------------------------------------------------------------------------- values

ADDR_POOL = [bytes([i + 1]) * 32 for i in range(3)] + [bytes(range(32))]


def value_strategy(s):
    t = s[0]
    if t == "bool":
        return st.booleans()
    if t == "byte":
        return st.one_of(st.sampled_from([0, 1, 127, 128, 255]), st.integers(0, 255))
    if t == "uint":
        n = s[1]
        return st.one_of(st.sampled_from([0, 1, 2 ** (n - 1), 2**n - 1, 2 ** (n // 2)]), st.integers(0, 2**n - 1))
    if t == "address":
        return st.one_of(st.sampled_from(ADDR_POOL), st.binary(min_size=32, max_size=32))
    if t == "string":
        return st.one_of(st.sampled_from(["", "a", "hello world", "é✓", "x" * 40, "y" * 254, "z" * 255, "w" * 256, "q" * 300]), st.text(max_size=12))
    if t == "sbytes":
        return st.binary(min_size=s[1], max_size=s[1])
    if t == "dbytes":
        return st.one_of(st.sampled_from([b"", b"\x00", b"ab" * 20, b"\x01" * 255, b"\x02" * 256, b"\x03" * 257]), st.binary(max_size=12))
    if t == "sa":
        return st.lists(value_strategy(s[1]), min_size=s[2], max_size=s[2])
    if t == "da":
        if s[1][0] == "bool":
            return st.one_of(st.lists(st.booleans(), max_size=18), *[st.lists(st.booleans(), min_size=k, max_size=k) for k in (0, 1, 7, 8, 9, 16, 17)])
        return st.lists(value_strategy(s[1]), max_size=4)
    if t in ("tuple", "named"):
        ms = members(s)
        return st.tuples(*[value_strategy(m) for m in ms]).map(list) if ms else st.just([])
    raise ValueError(s)


def sdk_value(s, v):
    """value in the form algosdk's encoder wants"""
    t = s[0]
    if t in ("sbytes", "dbytes"):
        return bytes(v)
    if t in ("sa", "da"):
        return [sdk_value(s[1], x) for x in v]
    if t in ("tuple", "named"):
        return [sdk_value(m, x) for m, x in zip(members(s), v)]
    return v


def encode(s, v) -> bytes:
    return sdk_type(s).encode(sdk_value(s, v))


def jsonable(s, v):
    t = s[0]
    if t in ("address", "sbytes", "dbytes"):
        return {"b": bytes(v).hex()}
    if t in ("sa", "da"):
        return [jsonable(s[1], x) for x in v]
    if t in ("tuple", "named"):
        return [jsonable(m, x) for m, x in zip(members(s), v)]
    return v


def unjson(s, v):
    t = s[0]
    if t in ("address", "sbytes", "dbytes"):
        return bytes.fromhex(v["b"])
    if t in ("sa", "da"):
        return [unjson(s[1], x) for x in v]
    if t in ("tuple", "named"):
        return [unjson(m, x) for m, x in zip(members(s), v)]
    return v


# --------------------------------------------------------------------------- shape strategies

LEAVES = [["bool"], ["byte"], ["uint", 8], ["uint", 16], ["uint", 32], ["uint", 64], ["address"], ["string"], ["dbytes"], ["sbytes", 4], ["sbytes", 32]]
BOUNDARY_STATIC = [["sbytes", 255], ["sbytes", 256], ["sbytes", 257], ["sa", ["uint", 64], 32], ["sa", ["uint", 32], 64], ["sa", ["byte"], 256], ["tuple", [["sbytes", 128], ["sa", ["uint", 32], 32]]], ["sa", ["address"], 8]]
FIELD_NAMES = ["a", "b", "c", "value", "owner", "flag", "data", "n"]


@st.composite
def shape_strategy(draw, max_depth=3, top=True):
    if max_depth <= 0:
        return draw(st.sampled_from(LEAVES))
    if draw(st.integers(0, 14)) == 0:
        # static members whose encoding is around the 255/256-byte immediate boundary
        return draw(st.sampled_from(BOUNDARY_STATIC))
    k = draw(st.integers(0, 11))
    if k <= 3 and not top:
        return draw(st.sampled_from(LEAVES))
    if k <= 1 and top:
        return draw(st.sampled_from(LEAVES))
    if k <= 5:
        return ["sa", draw(shape_strategy(max_depth - 1, False)), draw(st.sampled_from([0, 1, 2, 3, 5, 8, 9, 17]))]
    if k <= 7:
        return ["da", draw(shape_strategy(max_depth - 1, False))]
    if k <= 10:
        n = draw(st.integers(0, 5))
        ms = []
        # bool runs of interesting lengths
        w = draw(st.integers(0, 5))
        if w == 0:
            # bool runs mixed with several dynamic members (head/tail offset bookkeeping across packed bools)
            dyn = [["string"], ["dbytes"], ["da", ["uint", 8]], ["da", ["bool"]], ["string"]]
            stat = [["uint", 8], ["uint", 64], ["byte"], ["address"], ["sbytes", 4]]
            ms = []
            for _ in range(draw(st.integers(1, 3))):
                ms += [["bool"]] * draw(st.sampled_from([0, 1, 2, 3, 8, 9]))
                ms += [draw(st.sampled_from(dyn)) for _ in range(draw(st.integers(0, 3)))]
                ms += [draw(st.sampled_from(stat)) for _ in range(draw(st.integers(0, 1)))]
            return ["tuple", ms]
        if w <= 2:
            run = draw(st.sampled_from([2, 7, 8, 9, 16, 17]))
            pre = [draw(shape_strategy(max_depth - 1, False)) for _ in range(draw(st.integers(0, 2)))]
            post = [draw(shape_strategy(max_depth - 1, False)) for _ in range(draw(st.integers(0, 2)))]
            return ["tuple", pre + [["bool"]] * run + post]
        for _ in range(n):
            ms.append(draw(shape_strategy(max_depth - 1, False)))
        return ["tuple", ms]
    n = draw(st.integers(1, 8))
    names = draw(st.permutations(FIELD_NAMES))[:n]
    fields = []
    for i in range(n):
        m = draw(shape_strategy(max_depth - 1, False))
        if not annotatable(m):
            # a generic Tuple with more than 5 members has no annotation type, so it cannot be a NamedTuple field
            m = draw(st.sampled_from(LEAVES))
        fields.append([names[i], m])
    return ["named", fields]


def annotatable(s) -> bool:
    t = s[0]
    if t == "tuple":
        return len(s[1]) <= 5 and all(annotatable(m) for m in s[1])
    if t == "named":
        return all(annotatable(m[1]) for m in s[1])
    if t in ("sa", "da"):
        return annotatable(s[1])
    return True


def enumerate_shapes(alphabet, max_members=3):
    """all types of depth <= 2 over the alphabet with <= max_members tuple members (C06 thorough / C19)"""
    import itertools

    d0 = list(alphabet)
    d1 = []
    for e in d0:
        for n in (0, 1, 2, 3):
            d1.append(["sa", e, n])
        d1.append(["da", e])
    for k in range(0, max_members + 1):
        for combo in itertools.product(d0, repeat=k):
            d1.append(["tuple", list(combo)])
    return d0, d1


def nontrivial(s) -> bool:
    """bool run >= 2, or a dynamic member that is not last, or depth >= 2"""
    if depth(s) >= 2:
        return True

    def walk(x):
        if x[0] in ("tuple", "named"):
            ms = members(x)
            run = 0
            for i, m in enumerate(ms):
                if m[0] == "bool":
                    run += 1
                    if run >= 2:
                        return True
                else:
                    run = 0
                if is_dynamic(m) and i != len(ms) - 1:
                    return True
            return any(walk(m) for m in ms)
        if x[0] in ("sa", "da"):
            if x[1][0] == "bool":
                return True
            return walk(x[1])
        return False

    return walk(s)
