"""Program sources shared by the static properties (C04, C05): recipe cases and constructor snippets -> TEAL."""
from __future__ import annotations

from typing import Dict, Iterator, List, Optional, Tuple

from . import diff
from .teal.absint import Sig

_SNIPPETS = None


def snippets():
    global _SNIPPETS
    if _SNIPPETS is None:
        import pyteal as pt
        from . import snippets as S

        _SNIPPETS = S.all_snippets(pt)
    return _SNIPPETS


def snippet_by_name(name):
    for n, f in snippets():
        if n == name:
            return f
    raise KeyError(name)


def compile_snippet(name: str, version: int, mode: str, assemble=False, optimize=None):
    """-> ('teal', text) | ('rejected', exc) | ('crash', exc)"""
    import pyteal as pt
    from . import snippets as S

    diff.reset_pyteal_state()
    try:
        e = snippet_by_name(name)()
        prog = S.wrap(pt, e)
        teal = pt.compileTeal(prog, pt.Mode.Application if mode == "app" else pt.Mode.Signature, version=version, assembleConstants=assemble, optimize=optimize)
        return "teal", teal
    except diff.pyteal_errors() as ex:
        return "rejected", ex
    except Exception as ex:  # noqa
        return "crash", ex
    finally:
        diff.reset_pyteal_state()


def declared_sigs(recipe: dict) -> Dict[str, Sig]:
    """label-prefix -> declared signature, from the recipe (names are unique by construction)"""
    out = {}
    for r in recipe.get("routines", []):
        nrets = 0 if r["ret"] == "N" else 1
        out[r["name"]] = Sig(len(r["params"]), nrets, [r["ret"]] if nrets else [])
    return out


def sigs_for_labels(recipe: dict, labels) -> Dict[str, Sig]:
    byname = declared_sigs(recipe)
    out = {}
    for lab in labels:
        base = lab.rsplit("_", 1)[0]
        if base in byname and lab[len(base) + 1:].isdigit():
            out[lab] = byname[base]
    return out
