"""C15 worker: compiles generated source modules with and without a source map in a fresh interpreter.

argv[1] = directory with the generated modules; stdin = {"main": module name, "version": v, "annotate": bool, "headers": bool,
"concise": bool, "steps": [relative working directory or null, ...]}: one compilation per step, after os.chdir() into
<argv[1]>/<dir> when the step names one (the directories exist).  stdout = {"runs": [result per step]}.
"""
import json
import os
import sys

REPO = os.environ.get("VERIF_REPO", "/repo")
sys.path.insert(0, REPO)
src_dir = os.path.realpath(sys.argv[1])
sys.path.insert(0, src_dir)
from feature_gates import FeatureGates  # noqa: E402

FeatureGates.set_sourcemap_enabled(True)
import pyteal as pt  # noqa: E402

assert os.path.realpath(pt.__file__).startswith(os.path.realpath(REPO) + os.sep), pt.__file__
job = json.load(sys.stdin)
mod = __import__(job["main"])


def one_run():
    out = {"cwd": os.getcwd()}
    try:
        mode = pt.Mode.Application
        asm = bool(job.get("assemble"))
        plain = pt.compileTeal(mod.program(), mode, version=job["version"], assembleConstants=asm)
        out["plain"] = plain
        comp = pt.Compilation(mod.program(), mode, version=job["version"], assemble_constants=asm)
        res = comp.compile(with_sourcemap=True, annotate_teal=job["annotate"], annotate_teal_headers=job["headers"], annotate_teal_concise=job["concise"])
        out["with_map"] = res.teal
        sm = res.sourcemap
        r3 = sm.r3_sourcemap
        out["source_root"] = r3.source_root
        out["entries"] = [[k[0], k[1], e.source, e.source_line, e.source_column] for k, e in r3.entries.items()]
        j = r3.to_json()
        out["json"] = j
        # where does each named source resolve to (relative names are relative to sourceRoot, Source Map v3)?
        resolved = {}
        for s in set([e.source for e in r3.entries.values()] + list(j.get("sources", []))):
            if s is None:
                continue
            p = s if os.path.isabs(s) else os.path.join(j.get("sourceRoot") or r3.source_root or os.getcwd(), s)
            resolved[s] = os.path.realpath(p) if os.path.isfile(p) else None
        out["resolved"] = resolved
        from pyteal.compiler.sourcemap import R3SourceMap

        back = R3SourceMap.from_json(j)
        out["roundtrip"] = [[k[0], k[1], e.source, e.source_line, e.source_column] for k, e in back.entries.items()]
        out["annotated"] = sm.annotated_teal
    except Exception as e:  # noqa
        import traceback

        out["error"] = "%s: %s" % (type(e).__name__, e)
        out["trace"] = traceback.format_exc()[-1500:]
    return out


runs = []
for step in job.get("steps") or [None]:
    if step is not None:
        os.chdir(os.path.join(src_dir, step))
    runs.append(one_run())
json.dump({"runs": runs, "src_dir": src_dir}, sys.stdout)
