"""Input-side predicates identifying recorded known findings (see known_findings.json)."""
from __future__ import annotations

PREDICATES = {}


def predicate(name):
    def deco(f):
        PREDICATES[name] = f
        return f

    return deco


_B32 = set("ABCDEFGHIJKLMNOPQRSTUVWXYZ234567")


@predicate("c13_addr_bad_checksum")
def c13_addr_bad_checksum(case, bucket, detail):
    """F14a: Addr given 58 base32-alphabet characters that do not decode to key + matching checksum."""
    if not isinstance(case, dict) or case.get("kind") != "addr":
        return False
    if bucket != "emitted-unlexable:addr":
        return False
    a = case.get("arg")
    return isinstance(a, str) and len(a) == 58 and all(c in _B32 for c in a)
