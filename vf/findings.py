"""Input-side predicates identifying recorded known findings (see known_findings.json)."""
from __future__ import annotations

PREDICATES = {}


def predicate(name):
    def deco(f):
        PREDICATES[name] = f
        return f

    return deco
