"""Input-side predicates identifying recorded known findings (see known_findings.json)."""
from __future__ import annotations

PREDICATES = {}


def predicate(name):
    def deco(f):
        PREDICATES[name] = f
        return f

    return deco


_B32 = set("ABCDEFGHIJKLMNOPQRSTUVWXYZ234567")


@predicate("c13_addr_bad_checksum")
def c13_addr_bad_checksum(case, bucket, detail):
    """F14a: Addr given 58 base32-alphabet characters that do not decode to key + matching checksum."""
    if not isinstance(case, dict) or case.get("kind") != "addr":
        return False
    if bucket != "emitted-unlexable:addr":
        return False
    a = case.get("arg")
    return isinstance(a, str) and len(a) == 58 and all(c in _B32 for c in a)


# --------------------------------------------------------------------------- F6 (optimizer)


def _optimizer_on(cfg) -> bool:
    ss = cfg.get("scratch_slots")
    return ss is True or (ss is None and cfg.get("version", 2) >= 9)


def f6_pattern_in_text(teal: str, reserved=()) -> bool:
    """A model of the slot-cancelling optimisation run on the *unoptimised* text: True iff at the moment a
    `store k; load k` pair (k not reserved, the load being the only load of k) is cancelled, the routine holds
    another store of k - the situation in which pyteal deletes that other store and leaves its operand on the stack."""
    from .teal import parser as tp

    prog = tp.parse(teal)
    ins = [[i.op, i.args[0] if i.args else None] for i in prog.instrs]
    label_at = set(prog.labels.values())
    # label positions shift as we delete; keep a parallel 'has label before' flag per instruction
    flag = [idx in label_at for idx in range(len(ins))]
    reserved = set(str(r) for r in reserved)
    hit = False
    changed = True
    while changed:
        changed = False
        for i in range(len(ins) - 1):
            if ins[i][0] == "store" and ins[i + 1][0] == "load" and ins[i][1] == ins[i + 1][1] and not flag[i + 1]:
                k = ins[i][1]
                if k in reserved:
                    continue
                loads = sum(1 for o, a in ins if o == "load" and a == k)
                if loads != 1:
                    continue
                stores = sum(1 for o, a in ins if o == "store" and a == k)
                if stores > 1:
                    hit = True
                # what pyteal does: delete every access of k
                keep = [j for j in range(len(ins)) if not (ins[j][0] in ("load", "store") and ins[j][1] == k)]
                # carry label flags forward to the next kept instruction
                nf = []
                pending = False
                for j in range(len(ins)):
                    if j in set(keep):
                        nf.append(flag[j] or pending)
                        pending = False
                    else:
                        pending = pending or flag[j]
                ins = [ins[j] for j in keep]
                flag = nf
                changed = True
                break
    return hit


def _f6_case(case) -> bool:
    from . import diff

    recipe = case.get("recipe")
    if not isinstance(recipe, dict):
        return False
    reserved = [d["slot"] for d in recipe.get("vars", {}).values() if d.get("slot") is not None]
    for r in recipe.get("routines", []):
        reserved += [d["slot"] for d in r.get("locals", {}).values() if d.get("slot") is not None]
    for cfg in case.get("configs", []):
        if not _optimizer_on(cfg):
            continue
        c2 = dict(cfg)
        c2["scratch_slots"] = False
        c2["assemble"] = False
        oc = diff.compile_recipe(recipe, c2, case.get("builder_kw"))
        if oc.teal is None:
            continue
        # DynamicScratchVar-indexed and multi-routine slots are skipped by the optimiser; the model is only
        # consulted for plain slots, which is where the finding lives
        if f6_pattern_in_text(oc.teal, reserved):
            return True
    return False


@predicate("f6_cancelled_slot_has_other_stores")
def f6_cancelled_slot_has_other_stores(case, bucket, detail):
    """F6: with the slot optimisation on, a routine-local automatically numbered slot whose only load directly
    follows a store, and which is stored to elsewhere in the routine as well."""
    if not isinstance(case, dict):
        return False
    return _f6_case(case)


# --------------------------------------------------------------------------- F8 (recursion depth on long programs)


@predicate("f8_long_routine_recursion")
def f8_long_routine_recursion(case, bucket, detail):
    """F8: a routine with several hundred sequential blocks overflows the Python stack in pyteal's recursive graph
    walks (addIncoming / validateTree / validateSlots / flatten ...). Input side: some routine of the recipe has
    >= 300 nodes; failure side: the crash is a RecursionError (any other crash of a long program is still reported)."""
    if not isinstance(case, dict) or not bucket.startswith("crash:RecursionError"):
        return False
    from .recipe import nodes as N

    recipe = case.get("recipe")
    if not isinstance(recipe, dict):
        return False
    sizes = [N.size(recipe["main"])] + [N.size(r["body"]) for r in recipe.get("routines", [])]
    return max(sizes) >= 300
