"""Input-side predicates identifying recorded known findings (see known_findings.json)."""
from __future__ import annotations

PREDICATES = {}


def predicate(name):
    def deco(f):
        PREDICATES[name] = f
        return f

    return deco


_B32 = set("ABCDEFGHIJKLMNOPQRSTUVWXYZ234567")


@predicate("c13_addr_bad_checksum")
def c13_addr_bad_checksum(case, bucket, detail):
    """F14a: Addr given 58 base32-alphabet characters that do not decode to key + matching checksum."""
    if not isinstance(case, dict) or case.get("kind") != "addr":
        return False
    if bucket != "emitted-unlexable:addr":
        return False
    a = case.get("arg")
    return isinstance(a, str) and len(a) == 58 and all(c in _B32 for c in a)


# --------------------------------------------------------------------------- F6 (optimizer)


def _optimizer_on(cfg) -> bool:
    ss = cfg.get("scratch_slots")
    return ss is True or (ss is None and cfg.get("version", 2) >= 9)


def f6_pattern_in_text(teal: str, reserved=()) -> bool:
    """A model of the slot-cancelling optimisation run on the *unoptimised* text: True iff at the moment a
    `store k; load k` pair (k not reserved, the load being the only load of k) is cancelled, the routine holds
    another store of k - the situation in which pyteal deletes that other store and leaves its operand on the stack."""
    from .teal import parser as tp

    prog = tp.parse(teal)
    ins = [[i.op, i.args[0] if i.args else None] for i in prog.instrs]
    # recursion spill code (`load a; load b; [uncover n]*; callsub f; [cover/swap]*; store b; store a`, or with a `cover n`
    # after each load) is added after
    # the optimiser ran: those accesses are invisible to it, so they are taken out of the model
    spill = set()
    for c, (o, a) in enumerate(ins):
        if o != "callsub":
            continue
        j = c - 1
        before = {}
        # both layouts occur: `load a; load b; uncover n; uncover n; callsub` and `load a; cover n; load b; cover n; callsub`
        while j >= 0 and ins[j][0] in ("uncover", "cover", "load"):
            if ins[j][0] == "load":
                before.setdefault(ins[j][1], j)
            j -= 1
        j = c + 1
        after = {}
        while j < len(ins) and ins[j][0] in ("store", "cover", "uncover", "swap"):
            if ins[j][0] == "store":
                after[ins[j][1]] = j
            j += 1
        for k in set(before) & set(after):
            spill.add(before[k])
            spill.add(after[k])
    for j in spill:
        ins[j] = ["nop-spill", None]
    label_at = set(prog.labels.values())
    # label positions shift as we delete; keep a parallel 'has label before' flag per instruction
    flag = [idx in label_at for idx in range(len(ins))]
    reserved = set(str(r) for r in reserved)
    hit = False
    changed = True
    while changed:
        changed = False
        for i in range(len(ins) - 1):
            if ins[i][0] == "store" and ins[i + 1][0] == "load" and ins[i][1] == ins[i + 1][1] and not flag[i + 1]:
                k = ins[i][1]
                if k in reserved:
                    continue
                loads = sum(1 for o, a in ins if o == "load" and a == k)
                if loads != 1:
                    continue
                stores = sum(1 for o, a in ins if o == "store" and a == k)
                if stores > 1:
                    hit = True
                # what pyteal does: delete every access of k
                keep = [j for j in range(len(ins)) if not (ins[j][0] in ("load", "store") and ins[j][1] == k)]
                # carry label flags forward to the next kept instruction
                nf = []
                pending = False
                for j in range(len(ins)):
                    if j in set(keep):
                        nf.append(flag[j] or pending)
                        pending = False
                    else:
                        pending = pending or flag[j]
                ins = [ins[j] for j in keep]
                flag = nf
                changed = True
                break
    return hit


def _f6_case(case) -> bool:
    from . import diff

    recipe = case.get("recipe")
    if not isinstance(recipe, dict):
        return False
    reserved = [d["slot"] for d in recipe.get("vars", {}).values() if d.get("slot") is not None]
    for r in recipe.get("routines", []):
        reserved += [d["slot"] for d in r.get("locals", {}).values() if d.get("slot") is not None]
    for cfg in case.get("configs", []):
        if not _optimizer_on(cfg):
            continue
        c2 = dict(cfg)
        c2["scratch_slots"] = False
        c2["assemble"] = False
        oc = diff.compile_recipe(recipe, c2, case.get("builder_kw"))
        if oc.teal is None:
            continue
        # DynamicScratchVar-indexed and multi-routine slots are skipped by the optimiser; the model is only
        # consulted for plain slots, which is where the finding lives
        if f6_pattern_in_text(oc.teal, reserved):
            return True
    return False


@predicate("f6_cancelled_slot_has_other_stores")
def f6_cancelled_slot_has_other_stores(case, bucket, detail):
    """F6: with the slot optimisation on, a routine-local automatically numbered slot whose only load directly
    follows a store, and which is stored to elsewhere in the routine as well."""
    if not isinstance(case, dict):
        return False
    return _f6_case(case)


# --------------------------------------------------------------------------- F8 (recursion depth on long programs)


@predicate("f8_long_routine_recursion")
def f8_long_routine_recursion(case, bucket, detail):
    """F8: a routine with several hundred sequential blocks overflows the Python stack in pyteal's recursive graph
    walks (addIncoming / validateTree / validateSlots / flatten ...). Input side: some routine of the recipe has
    >= 300 nodes; failure side: the crash is a RecursionError (any other crash of a long program is still reported)."""
    if not isinstance(case, dict) or not bucket.startswith("crash:RecursionError"):
        return False
    from .recipe import nodes as N

    recipe = case.get("recipe")
    if not isinstance(recipe, dict):
        return False
    sizes = [N.size(recipe["main"])] + [N.size(r["body"]) for r in recipe.get("routines", [])]
    return max(sizes) >= 300


# --------------------------------------------------------------------------- C04 findings


def _has_loop(recipe) -> bool:
    from .recipe import nodes as N

    return any(n[0] in ("while", "for") for n in N.recipe_nodes(recipe))


@predicate("f9_loop_below_v4")
def f9_loop_below_v4(case, bucket, detail):
    """F9: While/For compiled at program version 2 or 3 (emits a backward branch, which needs v4)."""
    if bucket != "static:backjump" or not isinstance(case, dict):
        return False
    if "snippet" in case:
        return case["snippet"] in ("While", "For") and case.get("version", 9) < 4
    recipe = case.get("recipe")
    return isinstance(recipe, dict) and _has_loop(recipe) and any(c.get("version", 9) < 4 for c in case.get("configs", []))


_ITXN_NEVER_SNIPPETS = {
    "itxn_field." + n
    for n in (
        "first_valid first_valid_time last_valid lease group_index tx_id num_app_args num_accounts num_assets "
        "num_applications logs num_logs last_log created_asset_id created_application_id num_approval_program_pages "
        "num_clear_state_program_pages"
    ).split()
}


@predicate("f17_itxn_field_not_settable")
def f17_itxn_field_not_settable(case, bucket, detail):
    """F17: InnerTxnBuilder.SetField(TxnField.X, ..) for a field that itxn_field can never set (read-only/effects fields)."""
    return bucket == "static:itxn-field" and isinstance(case, dict) and case.get("snippet") in _ITXN_NEVER_SNIPPETS


_ITXN_LATE_FIELDS = {"itxn_field." + n: v for n, v in (
    ("state_proof_pk", 6), ("last_log", 6), ("approval_program_pages", 7), ("clear_state_program_pages", 7),
    ("num_approval_program_pages", 7), ("num_clear_state_program_pages", 7), ("first_valid_time", 7))}


@predicate("f18_itxn_field_version")
def f18_itxn_field_version(case, bucket, detail):
    """F18: InnerTxnBuilder.SetField of a field introduced after the program version being compiled."""
    if bucket != "static:field-version" or not isinstance(case, dict):
        return False
    s = case.get("snippet")
    return s in _ITXN_LATE_FIELDS and case.get("version", 99) < _ITXN_LATE_FIELDS[s]


@predicate("f19_block_layout_backjump")
def f19_block_layout_backjump(case, bucket, detail):
    """F19: at versions 2-3 the block sorter places a branch arm after its join point and jumps back to it
    (two or more If/Cond/Assert-style branchings in one routine); no loop involved (loops are F9)."""
    if bucket != "static:backjump" or not isinstance(case, dict) or "recipe" not in case:
        return False
    from .recipe import nodes as N

    recipe = case["recipe"]
    if _has_loop(recipe):
        return False
    nbranch = sum(1 for n in N.recipe_nodes(recipe) if n[0] in ("if", "cond", "assert", "maybe"))
    return nbranch >= 2 and any(c.get("version", 9) < 4 for c in case.get("configs", []))


# --------------------------------------------------------------------------- P1 (exit nested in an operand)

_STMT_CHILD = {"seq": None, "if": (2, 3), "cond": None, "while": (2,), "for": (1, 3, 4), "comment": (2,)}


def has_operand_nested_exit(recipe) -> bool:
    """True iff a Return (or a Break/Continue leaving its loop) occurs while an operand of an enclosing operator,
    call, store, ... is still pending on the stack."""

    def walk(n, pend_ret, pend_loop):
        t = n[0]
        if t == "return":
            if pend_ret:
                return True
            return n[1] is not None and walk(n[1], True, True)
        if t in ("break", "continue"):
            return pend_loop
        if t == "seq":
            return any(walk(x, pend_ret, pend_loop) for x in n[1])
        if t == "if":
            return walk(n[1], True, True) or walk(n[2], pend_ret, pend_loop) or (n[3] is not None and walk(n[3], pend_ret, pend_loop))
        if t == "cond":
            return any(walk(a[0], True, True) or walk(a[1], pend_ret, pend_loop) for a in n[1])
        if t == "while":
            return walk(n[1], True, True) or walk(n[2], pend_ret, False)
        if t == "for":
            return walk(n[1], pend_ret, pend_loop) or walk(n[2], True, True) or walk(n[3], pend_ret, False) or walk(n[4], pend_ret, False)
        if t == "comment":
            return len(n) > 2 and n[2] is not None and walk(n[2], pend_ret, pend_loop)
        from .recipe import nodes as N

        kids = N.children(n)
        # operator / call / store / effect: the first child is evaluated with nothing of this node pending, later
        # children with the earlier operands pending
        for i, c in enumerate(kids):
            if walk(c, pend_ret or i > 0, pend_loop or i > 0):
                return True
        return False

    if walk(recipe["main"], False, False):
        return True
    return any(walk(r["body"], False, False) for r in recipe.get("routines", []))


@predicate("p1_exit_nested_in_operand")
def p1_exit_nested_in_operand(case, bucket, detail):
    return isinstance(case, dict) and isinstance(case.get("recipe"), dict) and has_operand_nested_exit(case["recipe"])


# --------------------------------------------------------------------------- F23 (comment defeats the slot optimiser)


@predicate("f23_comment_blocks_slot_optimisation")
def f23_comment_blocks_slot_optimisation(case, bucket, detail):
    """F23: with the slot optimisation on, a comment op placed between `store k` and `load k` keeps the pair from being
    cancelled, so the annotated program keeps a store/load the base program lost. Input side: the failing configuration
    has the optimiser on, and the same pair of programs compiled with scratch_slots=False has equal instruction streams
    (i.e. the annotations themselves change nothing)."""
    if bucket != "stream-differs" or not isinstance(case, dict) or "annotated" not in case:
        return False
    from .props import c18
    from .teal import canon, parser as tp

    names = {int(k): v for k, v in case.get("names", {}).items()}
    hit = False
    for cfg in case.get("configs", []):
        if not _optimizer_on(cfg):
            continue
        c2 = dict(cfg, scratch_slots=False)
        kb, tb = c18._compile(case["recipe"], c2)
        ka, ta = c18._compile(case["annotated"], c2, names)
        if kb != "teal" or ka != "teal":
            return False
        pa, pb = tp.parse(ta), tp.parse(tb)
        skip = 0
        if case["annotated"].get("nonce"):
            # the nonce's `byte <nonce>; pop` follows the constant blocks when constants are assembled (same rule as c18.run_case)
            first = [i for i in pa.instrs if i.op not in ("intcblock", "bytecblock")][:2]
            if len(first) == 2 and first[1].op == "pop":
                skip = pa.instrs.index(first[1]) + 1
        asm = bool(cfg.get("assemble"))
        if canon.layout_normal(pa, skip, values=asm) != canon.layout_normal(pb, 0, values=asm):
            return False
        hit = True
    return hit


@predicate("f22_annotated_literal_index")
def f22_annotated_literal_index(case, bucket, detail):
    """F22: a Comment/Pragma wrapper directly around a literal Int index operand of Substring/Extract/Suffix/Replace
    (those constructs pick the immediate-form opcode only for bare Int operands)."""
    if bucket != "stream-differs" or not isinstance(case, dict) or "annotated" not in case:
        return False
    from .recipe import nodes as N

    def lit_under_wrapper(n):
        while n[0] in ("comment", "pragma") and len(n) > 2 and n[2] is not None:
            n = n[2]
            if n[0] == "int":
                return True
        return False

    for nd in N.recipe_nodes(case["annotated"]):
        if nd[0] == "tern" and nd[1] in ("Substring", "Extract", "Replace"):
            if any(lit_under_wrapper(c) for c in (nd[3], nd[4])):
                return True
        if nd[0] == "suffix" and lit_under_wrapper(nd[2]):
            return True
    return False


# --------------------------------------------------------------------------- F10 (out-of-range array index returns data)


@predicate("f10_oob_unchecked_element_kinds")
def f10_oob_unchecked_element_kinds(case, bucket, detail):
    """F10: indexing past the end is only caught when the computed byte range leaves the encoding. Not caught for
    (a) bool elements while the bit index stays inside the last packed byte, (b) elements of dynamic type (the head
    slot read lands in the tail area), (c) elements whose static encoding is 0 bytes long."""
    if bucket != "oob-returned-data" or not isinstance(case, dict) or not case.get("oob"):
        return False
    from .abi import shapes as S

    o = case["oob"]
    elem, n, idx = o["elem"], o["length"], o["index"]
    if elem[0] == "bool":
        return idx < 8 * ((n + 7) // 8)
    if S.is_dynamic(elem):
        return True
    try:
        return S.sdk_type(elem).byte_len() == 0
    except Exception:
        return False


@predicate("f11_methodcall_more_than_15_plain_args")
def f11_methodcall_more_than_15_plain_args(case, bucket, detail):
    """F11: InnerTxnBuilder.MethodCall with more than 15 non-transaction arguments (no ARC-4 tuple packing)."""
    if not isinstance(case, dict) or "method" not in case or not (bucket.startswith("run-failed:LIMIT") or bucket.startswith("callee-view")):
        return False
    return sum(1 for p in case["method"]["params"] if p["k"] != "txn") > 15


@predicate("f12_router_recompiled_on_same_object")
def f12_router_recompiled_on_same_object(case, bucket, detail):
    """F12: calling Router.compile_program a second time on the same router object renumbers scratch slots / labels
    (first and second output differ although both are valid). Input side: the target is a router and the differing
    compilation is a repeated one on the same object."""
    if bucket not in ("recompile-differs", "in-process:router-recompile-differs") or not isinstance(case, dict):
        return False
    t = case.get("target", {})
    return t.get("item", {}).get("k") == "router"


@predicate("f24_abi_callee_declaration_cached_by_fp_compile")
def f24_abi_callee_declaration_cached_by_fp_compile(case, bucket, detail):
    """F24: ReturnedValue.store_into asks for (and thereby caches) the callee's *scratch-slot* declaration while the
    caller's body is evaluated - also during a frame-pointer compilation. A later compilation of the same object
    without frame pointers then finds the ABIReturnSubroutine callee's declaration already built (with older slot ids)
    and numbers scratch slots in a different order than a fresh process does (equivalent program, different text).
    Input side: one object, a frame-pointer compilation earlier in the sequence than the differing compilation, which
    is one without frame pointers; and the program calls an ABIReturnSubroutine (kind 'abi' routine)."""
    if bucket != "same-object-sequence" or not isinstance(case, dict) or "seq_recipe" not in case:
        return False
    import re

    m = re.search(r"compilation #(\d+) ", detail or "")
    if not m:
        return False
    j = int(m.group(1)) - 1
    cfgs = case.get("cfgs") or []
    if not (0 <= j < len(cfgs)):
        return False

    def fp(c):
        return c["version"] >= 8 and c.get("frame_pointers", True)

    if fp(cfgs[j]) or not any(fp(c) for c in cfgs[:j]):
        return False
    r = case["seq_recipe"]
    abi_idx = {i for i, rt in enumerate(r.get("routines", [])) if rt.get("kind") == "abi"}
    if not abi_idx:
        return False
    from .recipe import nodes as N

    return any(n[0] in ("call", "callN") and n[1] in abi_idx for n in N.recipe_nodes(r))
