"""Deterministic structural shrinking of recipe trees (candidates only; the runner re-judges each)."""
from __future__ import annotations

import copy
from typing import Any, Iterator, List

from .recipe import nodes as N


def _paths(n, path=()):
    """Yield (path, node) for every node-position inside n. A path is a tuple of indices into nested lists."""
    yield path, n
    t = n[0]
    for i, x in enumerate(n):
        if i == 0:
            continue
        if _is_node(x):
            yield from _paths(x, path + (i,))
        elif isinstance(x, list):
            for j, y in enumerate(x):
                if _is_node(y):
                    yield from _paths(y, path + (i, j))
                elif isinstance(y, list):
                    for k, z in enumerate(y):
                        if _is_node(z):
                            yield from _paths(z, path + (i, j, k))
                        elif isinstance(z, list):
                            for m, w in enumerate(z):
                                if _is_node(w):
                                    yield from _paths(w, path + (i, j, k, m))
                                elif isinstance(w, list) and len(w) == 2 and _is_node(w[1]):
                                    yield from _paths(w[1], path + (i, j, k, m, 1))


def _is_node(x):
    return isinstance(x, list) and len(x) > 0 and isinstance(x[0], str) and x[0] not in ("ref", "arr", "multi") and (
        x[0] in _TAGS
    )


_TAGS = {
    "int", "bytes", "str", "addr", "enum", "txn", "gtxn", "txna", "gtxna", "txnlen", "global", "arg", "load", "param",
    "un", "bin", "nary", "tern", "suffix", "seq", "if", "cond", "while", "for", "break", "continue", "assert", "return",
    "approve", "reject", "err", "pop", "log", "store", "gput", "gdel", "gget", "lput", "ldel", "lget", "maybe", "optedin",
    "balance", "minbalance", "call", "callN", "itxn", "comment", "index", "wideratio", "boxput", "boxdel", "dsetidx",
    "dload", "dstore", "nop", "b16", "b32", "b64", "msig", "tmpli", "tmplb", "tmpla", "pragma", "optedin", "gget",
}


def _get(root, path):
    x = root
    for i in path:
        x = x[i]
    return x


def _set(root, path, val):
    if not path:
        return val
    r = copy.deepcopy(root)
    x = r
    for i in path[:-1]:
        x = x[i]
    x[path[-1]] = val
    return r


def _del(root, path):
    r = copy.deepcopy(root)
    x = r
    for i in path[:-1]:
        x = x[i]
    del x[path[-1]]
    return r


def node_shrinks(root) -> Iterator[Any]:
    """Candidate smaller trees."""
    ps = list(_paths(root))
    # 1. delete elements of seq / nary / assert / cond arm lists (big wins first)
    for path, n in ps:
        t = n[0]
        if t == "seq" and len(n[1]) > 0:
            for j in range(len(n[1])):
                yield _del(root, path + (1, j))
        if t == "nary" and len(n[2]) > 2:
            for j in range(len(n[2])):
                yield _del(root, path + (2, j))
        if t == "assert" and len(n[1]) > 1:
            for j in range(len(n[1])):
                yield _del(root, path + (1, j))
        if t == "cond" and len(n[1]) > 1:
            for j in range(len(n[1])):
                yield _del(root, path + (1, j))
        if t == "itxn":
            if len(n[1]) > 1:
                for j in range(len(n[1])):
                    yield _del(root, path + (1, j))
            for j, txn in enumerate(n[1]):
                if len(txn) > 1:
                    for k in range(len(txn)):
                        yield _del(root, path + (1, j, k))
    # 2. replace a node by one of its children
    for path, n in ps:
        for c in N.children(n):
            if _is_node(c):
                yield _set(root, path, c)
    # 3. replace by a trivial leaf
    for path, n in ps:
        if not path:
            continue
        t = n[0]
        if t in ("int", "nop", "break", "continue"):
            if t == "int" and n[1] not in (0, 1):
                yield _set(root, path, ["int", 0])
                yield _set(root, path, ["int", 1])
                yield _set(root, path, ["int", n[1] // 2])
            continue
        if t == "bytes":
            if n[1] != "":
                yield _set(root, path, ["bytes", ""])
                yield _set(root, path, ["bytes", n[1][: (len(n[1]) // 4) * 2]])
            continue
        yield _set(root, path, ["int", 0])
        yield _set(root, path, ["int", 1])
        yield _set(root, path, ["bytes", ""])
        yield _set(root, path, ["nop"])
    # 4. drop optional parts
    for path, n in ps:
        if n[0] == "if" and n[3] is not None:
            yield _set(root, path, [n[0], n[1], n[2], None] + n[4:])
        if n[0] == "assert" and len(n) > 2 and n[2] is not None:
            yield _set(root, path, ["assert", n[1], None])


def recipe_shrinks(recipe: dict) -> Iterator[dict]:
    for m in node_shrinks(recipe["main"]):
        r = dict(recipe)
        r["main"] = m
        yield r
    for i, rt in enumerate(recipe.get("routines", [])):
        for b in node_shrinks(rt["body"]):
            r = copy.deepcopy(recipe)
            r["routines"][i]["body"] = b
            yield r
    # drop unused vars
    used = set()
    for n in N.recipe_nodes(recipe):
        if n[0] in ("load", "store", "index") and isinstance(n[1], str):
            used.add(n[1])
        if n[0] in ("call", "callN"):
            for a in n[2]:
                if isinstance(a, list) and a and a[0] == "ref":
                    used.add(a[1])
        if n[0] in ("dsetidx",):
            used.add(n[2])
    for v in list(recipe.get("vars", {})):
        if v not in used:
            r = copy.deepcopy(recipe)
            del r["vars"][v]
            yield r
    # explicit slots -> auto
    for v, d in recipe.get("vars", {}).items():
        if d.get("slot") is not None:
            r = copy.deepcopy(recipe)
            r["vars"][v]["slot"] = None
            yield r


def case_shrinks(case: dict) -> Iterator[dict]:
    """case = {"recipe":..., "ctxs":[...], "configs":[...]} (other keys preserved)."""
    for key in ("configs", "ctxs"):
        xs = case.get(key)
        if xs and len(xs) > 1:
            for j in range(len(xs)):
                c = dict(case)
                c[key] = [xs[j]]
                yield c
    for r in recipe_shrinks(case["recipe"]):
        c = dict(case)
        c["recipe"] = r
        yield c
