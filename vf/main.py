import os
import sys

sys.path.insert(0, os.path.dirname(os.path.dirname(os.path.abspath(__file__))))
from vf import runner  # noqa: E402

if __name__ == "__main__":
    sys.exit(runner.main())
