"""Shard runner, failure bucketing, shrinking, replay files, evidence, KNOWN-FINDING / VIOLATION protocol."""
from __future__ import annotations

import argparse
import hashlib
import importlib
import json
import multiprocessing
import os
import sys
import time
import traceback
from collections import Counter
from typing import Any, Callable, Dict, Iterable, List, Optional, Tuple

from . import env


def canon(obj) -> str:
    return json.dumps(obj, sort_keys=True, separators=(",", ":"), default=_default)


def _default(o):
    if isinstance(o, (bytes, bytearray)):
        return {"b": bytes(o).hex()}
    if isinstance(o, (set, frozenset)):
        return sorted(o)
    if isinstance(o, tuple):
        return list(o)
    return repr(o)


def sha(obj) -> str:
    return hashlib.sha1(canon(obj).encode()).hexdigest()


class Collector:
    """Per-shard accumulator (picklable through .dump())."""

    def __init__(self, sample_cap: int = 4, pid: str = ""):
        self.pid = pid
        self.known = [k for k in load_known() if k.get("property") == pid and k.get("status") == "known"] if pid else []
        self.evaluations = 0
        self.nontrivial: set = set()
        self.classes: Counter = Counter()
        self.samples: List[Any] = []
        self.failures: Dict[str, dict] = {}
        self.excluded: Counter = Counter()
        self.sample_cap = sample_cap
        self.extra: Dict[str, Any] = {}

    def case(self, n: int = 1):
        self.evaluations += n

    def nontriv(self, obj):
        self.nontrivial.add(obj if isinstance(obj, str) and len(obj) == 40 else sha(obj))

    def cls(self, name: str, n: int = 1):
        self.classes[name] += n

    def sample(self, obj):
        if len(self.samples) < self.sample_cap:
            self.samples.append(obj)

    def fail(self, bucket: str, detail: str, case: Any):
        """Record an oracle mismatch. `case` must be a JSON-able input sufficient for judge()."""
        k = match_known(self.known, case, bucket, detail)
        if k is not None:
            self.excluded["known:%s" % k["id"]] += 1
            return
        size = len(canon(case))
        cur = self.failures.get(bucket)
        if cur is None or size < cur["size"]:
            self.failures[bucket] = {"bucket": bucket, "detail": detail[:2000], "case": case, "size": size, "count": (cur or {}).get("count", 0) + 1}
        else:
            cur["count"] += 1

    def dump(self) -> dict:
        return {
            "evaluations": self.evaluations,
            "nontrivial": sorted(self.nontrivial),
            "classes": dict(self.classes),
            "samples": self.samples,
            "failures": self.failures,
            "excluded": dict(self.excluded),
            "extra": self.extra,
        }


def match_known(known, case, bucket, detail):
    """The known finding (status=known) whose input-side predicate holds on this failing input, else None."""
    if not known:
        return None
    from . import findings

    for k in known:
        pred = findings.PREDICATES.get(k.get("predicate", ""))
        try:
            if pred and pred(case, bucket, detail):
                return k
        except Exception:
            continue
    return None


class _Enough(Exception):
    pass


class CaseTimeout(BaseException):
    """a single case exceeded the wall-clock guard: discarded and counted, never a violation"""


CASE_TIMEOUT_S = int(os.environ.get("VERIF_CASE_TIMEOUT", "180"))


def _alarm(_sig, _frm):
    raise CaseTimeout()


def scale() -> float:
    """VERIF_SCALE (default 1): multiplies the number of generated cases and the non-triviality floor - used to smoke-test
    the thorough tier's code paths in minutes (`VERIF_SCALE=0.03 ./check C01 --tier thorough`)."""
    try:
        return max(0.001, float(os.environ.get("VERIF_SCALE", "1")))
    except ValueError:
        return 1.0


def hyp_run(body: Callable[[Any], None], strategy, n_distinct: int, seedv: int, key=None, col: "Collector" = None):
    """Run a Hypothesis generation phase deterministically until `n_distinct` distinct cases (by key, default the
    whole case) have been passed to body; body records failures itself. Hypothesis' generate phase spends most
    of its calls on span-duplicating mutations of earlier examples, which mostly reproduce the same case: those
    are skipped (and counted as 'hypothesis-duplicate')."""
    import warnings

    from hypothesis import HealthCheck, Phase, Verbosity, given, seed as hseed, settings
    from hypothesis.errors import HypothesisWarning

    warnings.simplefilter("ignore", HypothesisWarning)
    n_distinct = max(1, int(n_distinct * scale()))
    seen = set()
    state = {"stop": False}
    keyf = key or (lambda c: c)

    @hseed(seedv)
    @settings(
        max_examples=max(n_distinct * 12, 50),
        database=None,
        deadline=None,
        derandomize=False,
        phases=[Phase.generate],
        suppress_health_check=list(HealthCheck),
        report_multiple_bugs=False,
        verbosity=Verbosity.quiet,
    )
    @given(strategy)
    def t(x):
        if state["stop"]:
            raise _Enough()
        h = sha(keyf(x))
        if h in seen:
            if col is not None:
                col.cls("hypothesis-duplicate")
            return
        seen.add(h)
        import signal

        signal.signal(signal.SIGALRM, _alarm)
        signal.setitimer(signal.ITIMER_REAL, CASE_TIMEOUT_S)
        try:
            body(x)
        except CaseTimeout:
            if col is not None:
                col.cls("discard:case-timeout(%ds)" % CASE_TIMEOUT_S)
        finally:
            signal.setitimer(signal.ITIMER_REAL, 0)
        if len(seen) >= n_distinct:
            state["stop"] = True
            raise _Enough()

    try:
        t()
    except _Enough:
        pass


def hyp_state_machine(machine_cls, max_examples: int, steps: int, seedv: int):
    from hypothesis import HealthCheck, Phase, seed as hseed, settings
    from hypothesis.stateful import run_state_machine_as_test

    run_state_machine_as_test(
        hseed(seedv)(machine_cls),
        settings=settings(
            max_examples=max_examples,
            stateful_step_count=steps,
            database=None,
            deadline=None,
            derandomize=False,
            phases=[Phase.generate],
            suppress_health_check=list(HealthCheck),
            report_multiple_bugs=False,
        ),
    )


def _shard_entry(args):
    modname, tier, seedv, k, n = args
    try:
        env.import_pyteal()
        mod = importlib.import_module(modname)
        import gc

        # imported libraries hold ~10^6 long-lived objects; keep the cyclic GC from re-traversing them
        gc.collect()
        gc.freeze()
        gc.set_threshold(50000, 20, 100)
        col = Collector(pid=mod.ID)
        t0 = time.time()
        mod.shard(tier, env.derive(seedv, mod.ID, k), k, n, col)
        d = col.dump()
        d["wall"] = time.time() - t0
        return d
    except BaseException as e:  # harness error
        return {"error": "".join(traceback.format_exception(type(e), e, e.__traceback__))[-6000:]}


def load_known() -> List[dict]:
    p = os.path.join(env.VERIF_DIR, "known_findings.json")
    if not os.path.exists(p):
        return []
    with open(p) as f:
        return json.load(f)


def shrink(mod, bucket: str, case, budget_s: float, known=None):
    """Greedy structural minimisation with the property's judge()."""
    if not hasattr(mod, "shrinks"):
        return case
    t_end = time.time() + budget_s
    cur = case
    cur_size = len(canon(cur))
    improved = True
    while improved and time.time() < t_end:
        improved = False
        for cand in mod.shrinks(cur):
            if time.time() >= t_end:
                break
            sz = len(canon(cand))
            if sz >= cur_size:
                continue
            try:
                res = mod.judge(cand)
            except Exception:
                continue
            if any(b == bucket and match_known(known, cand, b, d) is None for b, d in res):
                cur, cur_size = cand, sz
                improved = True
                break
    return cur


def main(argv=None):
    ap = argparse.ArgumentParser()
    ap.add_argument("prop")
    ap.add_argument("--tier", default=None)
    ap.add_argument("--replay", default=None)
    ap.add_argument("--shards", type=int, default=None)
    a = ap.parse_args(argv)
    pid = a.prop.upper()
    tier = a.tier or env.tier()
    seedv = env.seed()

    if os.environ.get("PYTHONHASHSEED") != "0":
        os.environ["PYTHONHASHSEED"] = "0"
        os.execv(sys.executable, [sys.executable, os.path.join(env.VERIF_DIR, "vf", "main.py")] + sys.argv[1:])

    t0 = time.time()
    try:
        env.import_pyteal()
        import hypothesis  # noqa

        modname = "vf.props.%s" % pid.lower()
        mod = importlib.import_module(modname)
    except Exception:
        traceback.print_exc()
        print("HARNESS-ERROR property=%s import failed" % pid)
        return 2

    if a.replay:
        with open(a.replay) as f:
            rep = json.load(f)
        res = mod.judge(rep["case"])
        if res:
            for b, d in res:
                print("replay: bucket=%s %s" % (b, d[:500]))
            print("VIOLATION property=%s replay=%s" % (pid, a.replay))
            return 1
        print("replay: property holds on %s" % a.replay)
        return 0

    n = a.shards or getattr(mod, "SHARDS", {}).get(tier, env.ncpu())
    n = max(1, n)
    procs = min(n, env.ncpu())
    jobs = [(modname, tier, seedv, k, n) for k in range(n)]
    if procs == 1:
        outs = [_shard_entry(j) for j in jobs]
    else:
        # spawn, not fork: copy-on-write faults on the parent's heap are very expensive with 16 children here
        ctx = multiprocessing.get_context(os.environ.get("VERIF_MP", "spawn"))
        with ctx.Pool(procs, maxtasksperchild=1) as pool:
            outs = pool.map(_shard_entry, jobs, chunksize=1)

    errs = [o["error"] for o in outs if "error" in o]
    if errs:
        print(errs[0])
        print("HARNESS-ERROR property=%s (%d shard(s) failed)" % (pid, len(errs)))
        return 2

    evaluations = sum(o["evaluations"] for o in outs)
    nontrivial = set()
    classes: Counter = Counter()
    excluded: Counter = Counter()
    samples: List[Any] = []
    failures: Dict[str, dict] = {}
    extra: Dict[str, Any] = {}
    for o in outs:
        nontrivial.update(o["nontrivial"])
        classes.update(o["classes"])
        excluded.update(o["excluded"])
        for s in o["samples"]:
            if len(samples) < 6:
                samples.append(s)
        for b, f in o["failures"].items():
            cur = failures.get(b)
            if cur is None or f["size"] < cur["size"]:
                if cur:
                    f["count"] += cur["count"]
                failures[b] = f
            else:
                cur["count"] += f["count"]
        for k, v in o.get("extra", {}).items():
            if isinstance(v, (int, float)):
                extra[k] = extra.get(k, 0) + v
            elif isinstance(v, list):
                extra.setdefault(k, [])
                extra[k] = (extra[k] + v)[:20]
            else:
                extra[k] = v

    # dedicated finding sub-cases + known matching
    known = [k for k in load_known() if k.get("property") == pid]
    known_lines: List[str] = []
    violations: List[Tuple[str, dict, str]] = []

    # each listed known finding is re-checked on its example every run
    for k in known:
        if k.get("status") != "known":
            continue
        ex = k.get("example")
        still = None
        if ex is not None:
            try:
                still = bool(mod.judge(ex))
            except Exception:
                still = None
        if still is False:
            known_lines.append("NOTE: known finding %s (%s) no longer reproduces on its example" % (k["id"], pid))
        else:
            known_lines.append("KNOWN-FINDING: property=%s %s [%s]" % (pid, k["what"], k["id"]))
    # fixed entries: the example must now pass
    for k in known:
        if k.get("status") == "fixed" and k.get("example") is not None:
            try:
                res = mod.judge(k["example"])
            except Exception as e:
                res = [("harness", repr(e))]
            for b, d in res:
                failures.setdefault("regress:%s:%s" % (k["id"], b), {"bucket": "regress:%s:%s" % (k["id"], b), "detail": d, "case": k["example"], "size": 0, "count": 1})

    shrink_budget = getattr(mod, "SHRINK_S", {}).get(tier, 20 if tier == "quick" else 180)
    kn = [k for k in known if k.get("status") == "known"]
    for b in sorted(failures):
        f = failures[b]
        case = f["case"]
        mk = match_known(kn, case, b, f["detail"])
        if mk is not None:
            excluded["known:%s" % mk["id"]] += f["count"]
            continue
        small = shrink(mod, b, case, shrink_budget, kn) if not b.startswith("regress:") else case
        try:
            det = [d for bb, d in mod.judge(small) if bb == b]
            detail = det[0] if det else f["detail"]
        except Exception:
            detail = f["detail"]
        rdir = os.path.join(os.environ.get("VERIF_REPLAY_DIR") or os.path.join(env.VERIF_DIR, "replays"), pid)
        os.makedirs(rdir, exist_ok=True)
        rpath = os.path.join(rdir, sha({"b": b, "c": small})[:16] + ".json")
        with open(rpath, "w") as fh:
            json.dump({"property": pid, "bucket": b, "detail": detail, "case": small, "seed": seedv, "tier": tier}, fh, indent=1, default=_default)
        violations.append((b, f, rpath))

    wall = time.time() - t0
    coverage = {
        "evaluations": int(evaluations),
        "distinct_nontrivial": len(nontrivial),
        "rule": getattr(mod, "RULE", ""),
        "samples": samples,
        "classes": dict(sorted(classes.items())),
        "excluded": dict(excluded),
        "shards": n,
        "failure_buckets": {b: {"count": f["count"], "detail": f["detail"][:300]} for b, f in failures.items()},
    }
    if getattr(mod, "EXHAUSTIVE", False):
        coverage["exhaustive"] = True
    coverage.update(extra)
    ev = {
        "property_id": pid,
        "tier": tier,
        "seed": seedv,
        "level": getattr(mod, "LEVEL", "exploration"),
        "coverage": coverage,
        "assumptions": getattr(mod, "ASSUMPTIONS", []),
        "wall_s": round(wall, 2),
        "violations": len(violations),
    }
    edir = os.environ.get("VERIF_EVIDENCE_DIR") or os.path.join(env.VERIF_DIR, "evidence")
    os.makedirs(edir, exist_ok=True)
    try:
        with open(os.path.join(edir, pid + ".json"), "w") as fh:
            json.dump(ev, fh, indent=1, default=_default)
    except Exception:
        traceback.print_exc()
        print("HARNESS-ERROR property=%s cannot write evidence" % pid)
        return 2

    for line in known_lines:
        print(line)
    print(
        "%s tier=%s seed=%d evaluations=%d distinct_nontrivial=%d buckets=%d wall=%.1fs"
        % (pid, tier, seedv, evaluations, len(nontrivial), len(failures), wall)
    )
    need = max(1, int(getattr(mod, "MIN_NONTRIVIAL", {}).get(tier, 2) * scale()))
    if violations:
        for b, f, rpath in violations:
            print("  bucket %s (x%d): %s" % (b, f["count"], f["detail"][:400].replace("\n", " | ")))
            print("VIOLATION property=%s replay=%s" % (pid, os.path.relpath(rpath, env.VERIF_DIR)))
        return 1
    if len(nontrivial) < need:
        print("INCONCLUSIVE property=%s only %d non-trivial cases (need %d)" % (pid, len(nontrivial), need))
        return 2
    return 0
