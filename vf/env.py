"""Environment: locate the code under test, seeds, tiers."""
from __future__ import annotations

import hashlib
import os
import sys

VERIF_DIR = os.path.dirname(os.path.dirname(os.path.abspath(__file__)))
REPO = os.environ.get("VERIF_REPO", "/repo")
GUARD = "PYTEAL_VERIF"


def seed() -> int:
    try:
        return int(os.environ.get("VERIF_SEED", "1"))
    except ValueError:
        return int(hashlib.sha1(os.environ["VERIF_SEED"].encode()).hexdigest()[:8], 16)


def tier(default="quick") -> str:
    t = os.environ.get("VERIF_TIER", default)
    return t if t in ("quick", "thorough") else default


def derive(base: int, *parts) -> int:
    h = hashlib.sha256(("%d|" % base + "|".join(str(p) for p in parts)).encode()).hexdigest()
    return int(h[:15], 16)


def setup_path():
    """Put the code under test first on sys.path and verify that is what gets imported."""
    if REPO not in sys.path:
        sys.path.insert(0, REPO)
    if VERIF_DIR not in sys.path:
        sys.path.insert(1, VERIF_DIR)
    os.environ.setdefault(GUARD, "1")


def import_pyteal():
    setup_path()
    import linecache

    # PyTeal formats a traceback for every Expr it constructs; linecache.checkcache then stat()s every source file
    # on the (deep) stack each time. Sources do not change during a run: skip the re-validation (harness-side only).
    linecache.checkcache = lambda filename=None: None
    if os.environ.get("VERIF_FULL_TRACES") != "1":
        # Every Expr.__init__ calls traceback.format_stack() (used only for the text of getDefinitionTrace()); under
        # Hypothesis + the recursive recipe builder the stack is ~100 frames deep and this costs ~4 ms per node, i.e.
        # >80 % of a run. Harness-side stub (no source change; compile output does not depend on it).
        import traceback

        traceback.format_stack = lambda f=None, limit=None: ["<definition trace disabled by the verification harness>\n", ""]
    import pyteal  # noqa

    f = os.path.realpath(pyteal.__file__)
    if not f.startswith(os.path.realpath(REPO) + os.sep):
        raise RuntimeError("pyteal imported from %s, expected under %s" % (f, REPO))
    return pyteal


def ncpu() -> int:
    try:
        n = len(os.sched_getaffinity(0))
    except Exception:
        n = os.cpu_count() or 1
    return max(1, min(16, n))
