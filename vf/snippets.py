"""Constructor sweep for C04: one small program per public leaf / field / opcode constructor (and boundary immediates).

The *enumeration* uses introspection of the pyteal namespace (generator side); the judgement of what each emits is
done by the independent langspec (oracle side).  A snippet is (name, build(pt) -> Expr).  wrap() turns any Expr into
an approval-shaped program."""
# NOTE: no `from __future__ import annotations` here: pyteal inspects real annotation objects of subroutines.
from typing import Callable, List, Tuple


def wrap(pt, e):
    t = e.type_of()
    if t == pt.TealType.none:
        return pt.Seq(e, pt.Int(1))
    return pt.Seq(pt.Pop(e), pt.Int(1))


def _typed_use(pt, e):
    """use the value the way PyTeal's declared type allows: the emitted op then states that type (len needs bytes, + needs
    uint64), so a declared type that differs from the AVM's is visible to the type analysis of the emitted program"""
    t = e.type_of()
    if t == pt.TealType.bytes:
        return pt.Len(e)
    if t == pt.TealType.uint64:
        return e + pt.Int(1)
    return e


def _mv(pt, mv):
    if hasattr(mv, "hasValue"):
        return pt.Seq(mv, pt.Pop(mv.hasValue()), _typed_use(pt, mv.value()))
    slots = list(mv.output_slots)
    return pt.Seq(mv, *[pt.Pop(s.load()) for s in slots[:-1]], slots[-1].load())


def all_snippets(pt) -> List[Tuple[str, Callable]]:
    S: List[Tuple[str, Callable]] = []

    def add(name, f):
        S.append((name, f))

    I = pt.Int
    B = lambda h="00": pt.Bytes(bytes.fromhex(h))  # noqa
    B32 = lambda: pt.Bytes(b"\x01" * 32)  # noqa
    dynU = lambda v=0: pt.Btoi(pt.Itob(I(v)))  # noqa  (non-constant index expression)

    # ---- transaction fields: every accessor of every transaction object family
    txn_objs = [
        ("Txn", lambda: pt.Txn),
        ("Gtxn0", lambda: pt.Gtxn[0]),
        ("Gtxn15", lambda: pt.Gtxn[15]),
        ("GtxnDyn", lambda: pt.Gtxn[dynU(0)]),
        ("InnerTxn", lambda: pt.InnerTxn),
        ("Gitxn0", lambda: pt.Gitxn[0]),
        ("Gitxn15", lambda: pt.Gitxn[15]),
    ]
    skip = {"makeTxnExpr", "makeTxnaExpr"}
    names = [n for n in dir(pt.Txn) if not n.startswith("_") and n not in skip]
    for oname, obj in txn_objs:
        for n in names:
            attr = getattr(pt.Txn, n)
            if callable(attr):
                add("%s.%s()" % (oname, n), (lambda obj=obj, n=n: getattr(obj(), n)()))
            else:
                for iname, idx in (("0", lambda: 0), ("255", lambda: 255), ("dyn", lambda: dynU(0))):
                    add("%s.%s[%s]" % (oname, n, iname), (lambda obj=obj, n=n, idx=idx: getattr(obj(), n)[idx()]))
                add("%s.%s.length()" % (oname, n), (lambda obj=obj, n=n: getattr(obj(), n).length()))
    # boundary immediates that must be rejected or emitted legally
    for n in ("application_args", "accounts", "assets", "applications"):
        for k in (256, 300, 65536):
            add("Txn.%s[%d]" % (n, k), (lambda n=n, k=k: getattr(pt.Txn, n)[k]))
            add("Gtxn1.%s[%d]" % (n, k), (lambda n=n, k=k: getattr(pt.Gtxn[1], n)[k]))
            add("InnerTxn.%s[%d]" % (n, k), (lambda n=n, k=k: getattr(pt.InnerTxn, n)[k]))
    for k in (16, 255, 256):
        add("Gtxn[%d].fee" % k, (lambda k=k: pt.Gtxn[k].fee()))
        add("Gitxn[%d].fee" % k, (lambda k=k: pt.Gitxn[k].fee()))

    # ---- globals
    gskip = {"And", "Or", "getDefinitionTrace", "has_return", "type_of"}
    for n in dir(pt.Global):
        if n.startswith("_") or n in gskip:
            continue
        add("Global.%s()" % n, (lambda n=n: getattr(pt.Global, n)()))

    # ---- params (MaybeValue families)
    for cls, argf in ((pt.AssetParam, lambda: [I(0)]), (pt.AppParam, lambda: [I(0)]), (pt.AccountParam, lambda: [I(0)])):
        for n in dir(cls):
            if n.startswith("_"):
                continue
            add("%s.%s" % (cls.__name__, n), (lambda cls=cls, n=n, argf=argf: _mv(pt, getattr(cls, n)(*argf()))))
    add("AccountParam.balance(addr)", lambda: _mv(pt, pt.AccountParam.balance(pt.Txn.sender())))
    add("AssetParam.total(id>255)", lambda: _mv(pt, pt.AssetParam.total(I(5005))))
    for n in ("balance", "frozen"):
        add("AssetHolding.%s" % n, (lambda n=n: _mv(pt, getattr(pt.AssetHolding, n)(I(0), I(0)))))
        add("AssetHolding.%s(addr)" % n, (lambda n=n: _mv(pt, getattr(pt.AssetHolding, n)(pt.Txn.sender(), I(7)))))

    # ---- app state / boxes
    add("App.id", lambda: pt.App.id())
    add("App.optedIn", lambda: pt.App.optedIn(I(0), I(0)))
    add("App.optedIn(addr)", lambda: pt.App.optedIn(pt.Txn.sender(), I(0)))
    add("App.localGet", lambda: pt.App.localGet(I(0), B()))
    add("App.localGet(addr)", lambda: pt.App.localGet(pt.Txn.sender(), B()))
    add("App.localGetEx", lambda: _mv(pt, pt.App.localGetEx(I(0), I(0), B())))
    add("App.globalGet", lambda: pt.App.globalGet(B()))
    add("App.globalGetEx", lambda: _mv(pt, pt.App.globalGetEx(I(0), B())))
    add("App.localPut", lambda: pt.App.localPut(I(0), B(), I(1)))
    add("App.globalPut", lambda: pt.App.globalPut(B(), B()))
    add("App.localDel", lambda: pt.App.localDel(I(0), B()))
    add("App.globalDel", lambda: pt.App.globalDel(B()))
    add("App.box_create", lambda: pt.App.box_create(B(), I(4)))
    add("App.box_delete", lambda: pt.App.box_delete(B()))
    add("App.box_extract", lambda: pt.App.box_extract(B(), I(0), I(1)))
    add("App.box_replace", lambda: pt.App.box_replace(B(), I(0), B()))
    add("App.box_length", lambda: _mv(pt, pt.App.box_length(B())))
    add("App.box_get", lambda: _mv(pt, pt.App.box_get(B())))
    add("App.box_put", lambda: pt.App.box_put(B(), B()))
    add("App.box_splice", lambda: pt.App.box_splice(B(), I(0), I(1), B()))
    add("App.box_resize", lambda: pt.App.box_resize(B(), I(8)))
    add("Balance", lambda: pt.Balance(I(0)))
    add("Balance(addr)", lambda: pt.Balance(pt.Txn.sender()))
    add("MinBalance", lambda: pt.MinBalance(I(0)))
    add("Log", lambda: pt.Log(B()))

    # ---- block / crypto / encodings
    for n in dir(pt.Block):
        if n.startswith("_") or n in gskip:
            continue
        add("Block.%s" % n, (lambda n=n: getattr(pt.Block, n)(I(1))))
    add("Base64Decode.std", lambda: pt.Base64Decode.std(B()))
    add("Base64Decode.url", lambda: pt.Base64Decode.url(B()))
    add("JsonRef.as_string", lambda: pt.JsonRef.as_string(B(), B()))
    add("JsonRef.as_uint64", lambda: pt.JsonRef.as_uint64(B(), B()))
    add("JsonRef.as_object", lambda: pt.JsonRef.as_object(B(), B()))
    add("VrfVerify.algorand", lambda: _mv(pt, pt.VrfVerify.algorand(B(), B(), B())))
    add("Ed25519Verify", lambda: pt.Ed25519Verify(B(), B(), B()))
    add("Ed25519Verify_Bare", lambda: pt.Ed25519Verify_Bare(B(), B(), B()))
    for cv in pt.EcdsaCurve:
        add("EcdsaVerify.%s" % cv.name, (lambda cv=cv: pt.EcdsaVerify(cv, B32(), B32(), B32(), (B32(), B32()))))
        add("EcdsaDecompress.%s" % cv.name, (lambda cv=cv: _mv(pt, pt.EcdsaDecompress(cv, B32()))))
        add("EcdsaRecover.%s" % cv.name, (lambda cv=cv: _mv(pt, pt.EcdsaRecover(cv, B32(), I(0), B32(), B32()))))
    for cv in pt.EllipticCurve:
        add("EcAdd.%s" % cv.name, (lambda cv=cv: pt.EcAdd(cv, B(), B())))
        add("EcScalarMul.%s" % cv.name, (lambda cv=cv: pt.EcScalarMul(cv, B(), B())))
        add("EcPairingCheck.%s" % cv.name, (lambda cv=cv: pt.EcPairingCheck(cv, B(), B())))
        add("EcMultiScalarMul.%s" % cv.name, (lambda cv=cv: pt.EcMultiScalarMul(cv, B(), B())))
        add("EcSubgroupCheck.%s" % cv.name, (lambda cv=cv: pt.EcSubgroupCheck(cv, B())))
        add("EcMapTo.%s" % cv.name, (lambda cv=cv: pt.EcMapTo(cv, B())))

    # ---- unary / binary / ternary / n-ary operators
    from .recipe import nodes as N

    def operand(t, k=0):
        return I(3 + k) if t in ("U", "A") else B("0102030405060708")

    for name, (_op, at, _rt, _v) in N.UNARY.items():
        add("un.%s" % name, (lambda name=name, at=at: getattr(pt, name)(operand(at))))
    alias = {"EqB": "Eq", "NeqB": "Neq", "SetBitU": "SetBit", "SetBitB": "SetBit"}
    for name, (_op, at, _rt, _v) in N.BINARY.items():
        add("bin.%s" % name, (lambda name=name, at=at: getattr(pt, alias.get(name, name))(operand(at[0]), operand(at[1], 1))))
    for name in N.NARY:
        at = N.NARY[name][1]
        add("nary.%s/2" % name, (lambda name=name, at=at: getattr(pt, name)(operand(at), operand(at, 1))))
        add("nary.%s/4" % name, (lambda name=name, at=at: getattr(pt, name)(*[operand(at, j) for j in range(4)])))
    for name, (_op, at, _rt, _v) in N.TERNARY.items():
        add("tern.%s" % name, (lambda name=name, at=at: getattr(pt, alias.get(name, name))(operand(at[0]), I(1), operand(at[2], 1) if at[2] == "B" else I(1))))
    for s, l in ((0, 0), (0, 255), (255, 255), (0, 256), (256, 0), (255, 1), (3, 300)):
        add("Extract(c,%d,%d)" % (s, l), (lambda s=s, l=l: pt.Extract(B("00" * 8), I(s), I(l))))
        add("Substring(c,%d,%d)" % (s, l), (lambda s=s, l=l: pt.Substring(B("00" * 8), I(s), I(max(s, l)))))
    # dense grid around the uint8 immediate boundary (opcode choice depends on start, end and length)
    _pts = (0, 1, 2, 254, 255, 256, 257, 300, 510, 511, 512)
    for s in _pts:
        for e in _pts:
            if e >= s:
                add("Substring(grid,%d,%d)" % (s, e), (lambda s=s, e=e: pt.Substring(B("00" * 8), I(s), I(e))))
            add("Extract(grid,%d,%d)" % (s, e), (lambda s=s, e=e: pt.Extract(B("00" * 8), I(s), I(e))))
    for s in (0, 1, 255, 256):
        add("Suffix(c,%d)" % s, (lambda s=s: pt.Suffix(B("00" * 8), I(s))))
        add("Replace(c,%d)" % s, (lambda s=s: pt.Replace(B("00" * 8), I(s), B())))
    add("Extract(dyn)", lambda: pt.Extract(B("00" * 8), dynU(0), dynU(1)))
    add("Substring(dyn)", lambda: pt.Substring(B("00" * 8), dynU(0), dynU(1)))
    add("Suffix(dyn)", lambda: pt.Suffix(B("00" * 8), dynU(0)))
    add("Replace(dyn)", lambda: pt.Replace(B("00" * 8), dynU(0), B()))
    add("WideRatio", lambda: pt.WideRatio([I(2), I(3)], [I(5)]))
    add("Exp", lambda: pt.Exp(I(2), I(3)))
    add("AddW", lambda: (lambda mv: pt.Seq(mv, mv.output_slots[0].load())) (pt.MultiValue(pt.Op.addw, [pt.TealType.uint64, pt.TealType.uint64], args=[I(1), I(2)])))

    # ---- LogicSig args
    for k in (0, 3, 4, 255, 256):
        add("Arg(%d)" % k, (lambda k=k: pt.Arg(k)))
    add("Arg(dyn)", lambda: pt.Arg(dynU(0)))

    # ---- group scratch / ids
    add("ImportScratchValue(0,0)", lambda: pt.ImportScratchValue(0, 0))
    add("ImportScratchValue(15,255)", lambda: pt.ImportScratchValue(15, 255))
    add("ImportScratchValue(dyn,1)", lambda: pt.ImportScratchValue(dynU(0), 1))
    # full boundary grid of the two immediates (constant / run-time transaction index x constant / run-time slot)
    for ti in (-1, 0, 1, 15, 16, 255, 256, "dyn"):
        for sl in (-1, 0, 1, 254, 255, 256, 257, 300, 65536, "dyn"):
            if (ti, sl) in ((0, 0), (15, 255), ("dyn", 1)):
                continue
            add("ImportScratchValue(%s,%s)" % (ti, sl), (lambda ti=ti, sl=sl: pt.ImportScratchValue(dynU(0) if ti == "dyn" else ti, dynU(1) if sl == "dyn" else sl)))
    for k in (-1, 1, 15, 16, 255, 256):
        add("GeneratedID(%d)" % k, (lambda k=k: pt.GeneratedID(k)))
    add("GeneratedID(0)", lambda: pt.GeneratedID(0))
    add("GeneratedID(dyn)", lambda: pt.GeneratedID(dynU(0)))

    # ---- scratch
    for k in (0, 255):
        add("ScratchVar(slot=%d)" % k, (lambda k=k: (lambda v: pt.Seq(v.store(I(1)), v.load()))(pt.ScratchVar(pt.TealType.uint64, k))))
    for k in (-1, 1, 254, 256, 257, 300, 65536):
        add("ScratchVar(slot=%d)" % k, (lambda k=k: (lambda v: pt.Seq(v.store(I(1)), v.load()))(pt.ScratchVar(pt.TealType.uint64, k))))
        add("ScratchSlot(%d).store/load" % k, (lambda k=k: (lambda sl: pt.Seq(sl.store(I(1)), sl.load(pt.TealType.uint64)))(pt.ScratchSlot(k))))
    for k in (-1, 1, 16, 65536):
        add("Arg(%d)" % k, (lambda k=k: pt.Arg(k)))
    for k in (-1, 1, 14):
        add("Gtxn[%d].fee" % k, (lambda k=k: pt.Gtxn[k].fee()))
        add("Gitxn[%d].fee" % k, (lambda k=k: pt.Gitxn[k].fee()))
        add("Gtxn[%d].application_args[255]" % k, (lambda k=k: pt.Gtxn[k].application_args[255]))
    for k in (-1, 1, 254):
        add("Txn.application_args[%d]" % k, (lambda k=k: pt.Txn.application_args[k]))
        add("InnerTxn.logs[%d]" % k, (lambda k=k: pt.InnerTxn.logs[k]))
    add("ScratchVar.index", lambda: (lambda v: pt.Seq(v.store(I(1)), v.index()))(pt.ScratchVar(pt.TealType.uint64)))
    add("DynamicScratchVar", lambda: (lambda d, v: pt.Seq(v.store(I(1)), d.set_index(v), d.store(I(2)), d.load()))(pt.DynamicScratchVar(pt.TealType.uint64), pt.ScratchVar(pt.TealType.uint64)))

    # ---- control flow / routines
    add("If", lambda: pt.If(I(1), I(2), I(3)))
    add("Cond", lambda: pt.Cond([I(0), I(2)], [I(1), I(3)]))
    add("Assert", lambda: pt.Assert(I(1)))
    add("Assert(comment)", lambda: pt.Assert(I(1), comment="c"))
    add("While", lambda: (lambda v: pt.Seq(v.store(I(0)), pt.While(v.load() < I(2)).Do(v.store(v.load() + I(1)))))(pt.ScratchVar()))
    add("For", lambda: (lambda v: pt.For(v.store(I(0)), v.load() < I(2), v.store(v.load() + I(1))).Do(pt.Seq(pt.If(v.load() == I(1)).Then(pt.Continue()), pt.If(v.load() == I(7)).Then(pt.Break()))))(pt.ScratchVar()))
    add("Return", lambda: pt.Return(I(1)))
    add("Approve", lambda: pt.Approve())
    add("Reject", lambda: pt.Reject())
    add("Err", lambda: pt.Seq(pt.If(I(0)).Then(pt.Err()), I(1)))

    def sub1():
        @pt.Subroutine(pt.TealType.uint64)
        def f(a, b):
            return a + b

        return f(I(1), I(2))

    def sub_rec():
        @pt.Subroutine(pt.TealType.uint64)
        def f(a):
            return pt.If(a == I(0), I(0), a + f(a - I(1)))

        return f(I(3))

    def sub_ref():
        @pt.Subroutine(pt.TealType.none)
        def f(a: pt.ScratchVar):
            return a.store(I(3))

        v = pt.ScratchVar()
        return pt.Seq(v.store(I(0)), f(v), v.load())

    def sub_abi():
        @pt.ABIReturnSubroutine
        def f(a: pt.abi.Uint64, *, output: pt.abi.Uint64):
            return output.set(a.get() + I(1))

        x = pt.abi.Uint64()
        return pt.Seq(x.set(I(1)), f(x).store_into(x), x.get())

    add("Subroutine", sub1)
    add("Subroutine(recursive)", sub_rec)
    add("Subroutine(by-ref)", sub_ref)
    add("ABIReturnSubroutine", sub_abi)

    # ---- inner transactions: every TxnField through SetField
    for f in pt.TxnField:
        def mk(f=f):
            tt = f.type_of()
            if f.is_array:
                val = [I(1)] if tt == pt.TealType.uint64 else [B()]
                return pt.Seq(pt.InnerTxnBuilder.Begin(), pt.InnerTxnBuilder.SetField(f, val), pt.InnerTxnBuilder.Submit())
            val = I(1) if tt == pt.TealType.uint64 else B()
            return pt.Seq(pt.InnerTxnBuilder.Begin(), pt.InnerTxnBuilder.SetField(f, val), pt.InnerTxnBuilder.Submit())

        add("itxn_field.%s" % f.name, mk)
    add("InnerTxnBuilder.Next", lambda: pt.Seq(pt.InnerTxnBuilder.Begin(), pt.InnerTxnBuilder.SetField(pt.TxnField.type_enum, pt.TxnType.Payment), pt.InnerTxnBuilder.Next(), pt.InnerTxnBuilder.SetField(pt.TxnField.type_enum, pt.TxnType.Payment), pt.InnerTxnBuilder.Submit()))
    add("InnerTxnBuilder.Execute", lambda: pt.InnerTxnBuilder.Execute({pt.TxnField.type_enum: pt.TxnType.Payment, pt.TxnField.amount: I(1)}))

    # ---- literals / constants
    add("Addr", lambda: pt.Addr("AAAAAAAAAAAAAAAAAAAAAAAAAAAAAAAAAAAAAAAAAAAAAAAAAAAAY5HFKQ"))
    add("MethodSignature", lambda: pt.MethodSignature("add(uint64,uint64)uint64"))
    add("Tmpl.Int", lambda: pt.Tmpl.Int("TMPL_X"))
    add("Tmpl.Bytes", lambda: pt.Tmpl.Bytes("TMPL_Y"))
    add("Tmpl.Addr", lambda: pt.Tmpl.Addr("TMPL_Z"))
    for e in ("NoOp", "OptIn", "CloseOut", "ClearState", "UpdateApplication", "DeleteApplication"):
        add("OnComplete.%s" % e, (lambda e=e: getattr(pt.OnComplete, e)))
    for e in ("Unknown", "Payment", "KeyRegistration", "AssetConfig", "AssetTransfer", "AssetFreeze", "ApplicationCall"):
        add("TxnType.%s" % e, (lambda e=e: getattr(pt.TxnType, e)))
    add("Bytes(base32)", lambda: pt.Bytes("base32", "MFRGGZDFMY"))
    add("Bytes(base64)", lambda: pt.Bytes("base64", "YWJj"))
    add("Bytes(base16)", lambda: pt.Bytes("base16", "0xdeadbeef"))
    add("Nonce", lambda: pt.Nonce("base32", "MFRGGZDFMY", I(1)))
    add("Comment", lambda: pt.Comment("hello", I(1)))

    # ---- OpUp
    add("OpUp.explicit", lambda: pt.Seq(pt.OpUp(pt.OpUpMode.Explicit, I(1)).ensure_budget(I(1000)), I(1)))
    add("OpUp.oncall", lambda: pt.Seq(pt.OpUp(pt.OpUpMode.OnCall).maximize_budget(I(2000)), I(1)))
    add("OpUp.oncall.fee_source", lambda: pt.Seq(pt.OpUp(pt.OpUpMode.OnCall).ensure_budget(I(2000), pt.OpUpFeeSource.GroupCredit), I(1)))

    # ---- ABI bits that lower to interesting ops
    def abi_tuple():
        a = pt.abi.make(pt.abi.Tuple3[pt.abi.Bool, pt.abi.Uint16, pt.abi.String])
        b, u, s = pt.abi.Bool(), pt.abi.Uint16(), pt.abi.String()
        return pt.Seq(b.set(True), u.set(7), s.set("hi"), a.set(b, u, s), pt.Len(a.encode()))

    def abi_dynarr():
        a = pt.abi.make(pt.abi.DynamicArray[pt.abi.Uint8])
        x = pt.abi.Uint8()
        return pt.Seq(a.decode(pt.Txn.application_args[0]), a[dynU(0)].store_into(x), x.get())

    add("abi.Tuple.set", abi_tuple)
    add("abi.DynamicArray[i]", abi_dynarr)
    return S
