"""Independent legality model: the lowest program version / mode at which the docs say a recipe's constructs exist.

Conservative on purpose: a value that is too high only loses acceptance coverage; it is used solely for
"legal => compilation must return TEAL" (C20) and never to claim that something must be rejected.
"""
from __future__ import annotations

from . import nodes as N

TXN_FIELD_MINV = {
    "global_num_uints": 3, "global_num_byte_slices": 3, "local_num_uints": 3, "local_num_byte_slices": 3,
    "extra_program_pages": 4, "nonparticipation": 5, "created_asset_id": 5, "created_application_id": 5,
    "last_log": 6, "state_proof_pk": 6, "first_valid_time": 7,
}
GLOBAL_MINV = {
    "creator_address": 3, "current_application_address": 5, "group_id": 5, "opcode_budget": 6, "caller_app_id": 6,
    "caller_app_address": 6, "asset_create_min_balance": 10, "asset_opt_in_min_balance": 10, "genesis_hash": 10,
}
APP_ONLY_TAGS = {"gput", "gdel", "gget", "lput", "ldel", "lget", "maybe", "optedin", "balance", "minbalance", "log", "itxn", "boxput", "boxdel"}


def node_minv(n) -> int:
    t = n[0]
    if t == "un":
        return N.UNARY[n[1]][3]
    if t == "bin":
        return N.BINARY[n[1]][3]
    if t == "tern":
        return {"Substring": 2, "Extract": 5, "SetBitU": 3, "SetBitB": 3, "SetByte": 3, "Divw": 6, "Replace": 7}[n[1]]
    if t == "suffix":
        return 5
    if t == "txn":
        return TXN_FIELD_MINV.get(n[1], 2)
    if t == "gtxn":
        return max(TXN_FIELD_MINV.get(n[2], 2), 2 if isinstance(n[1], int) else 3)
    if t == "txna":
        m = {"assets": 3, "applications": 3, "logs": 5, "approval_program_pages": 7, "clear_state_program_pages": 7}.get(n[1], 2)
        return m if isinstance(n[2], int) else max(m, 5)
    if t == "gtxna":
        m = {"assets": 3, "applications": 3}.get(n[2], 2)
        if not isinstance(n[1], int):
            m = max(m, 3)
        if not isinstance(n[3], int):
            m = max(m, 5)
        return m
    if t == "txnlen":
        return {"assets": 3, "applications": 3}.get(n[1], 2)
    if t == "global":
        return GLOBAL_MINV.get(n[1], 2)
    if t == "arg":
        return 2 if isinstance(n[1], int) else 5
    if t in ("while", "for", "break", "continue"):
        return 4
    if t in ("call", "callN"):
        return 4
    if t == "log":
        return 5
    if t == "itxn":
        return 6 if len(n[1]) > 1 else 5
    if t == "maybe":
        return N.MAYBE_MINV[n[1]]
    if t == "minbalance":
        return 3
    if t in ("boxput", "boxdel"):
        return 8
    if t == "wideratio":
        return 5
    if t in ("dsetidx", "dload", "dstore"):
        return 5
    if t == "assert":
        return 2
    return 2


def account_bytes_ref(n) -> bool:
    """account passed as address bytes (needs v4 direct references)"""
    t = n[0]
    if t in ("lput", "ldel", "lget", "balance", "minbalance", "optedin"):
        a = n[1]
        return N.typeof(a, None) == "B" if a[0] in ("txn", "bytes", "global") else False
    if t == "maybe" and n[1] in ("App.localGetEx", "AssetHolding.balance", "AssetHolding.frozen", "AccountParam.balance", "AccountParam.authAddr"):
        a = n[2][0]
        return a[0] in ("txn", "bytes", "global")
    return False


def min_version(recipe) -> int:
    v = 2
    for n in N.recipe_nodes(recipe):
        v = max(v, node_minv(n))
    allvars = list(recipe.get("vars", {}).values()) + [d for r in recipe.get("routines", []) for d in r.get("locals", {}).values()]
    if any(d.get("kind") == "abi" for d in allvars):
        v = max(v, 5)  # abi.String set/get lower to extract-family ops
    if any(r.get("kind") == "abi" for r in recipe.get("routines", [])):
        v = max(v, 5)
    if recipe.get("routines"):
        v = max(v, 4)
        if any(p[2] == "ref" for r in recipe["routines"] for p in r["params"]):
            v = max(v, 5)  # by-reference ScratchVar parameters are DynamicScratchVars: loads/stores (v5)
    return v


def app_only(recipe) -> bool:
    for n in N.recipe_nodes(recipe):
        if n[0] in APP_ONLY_TAGS:
            return True
        if n[0] == "global" and N.GLOBAL_METHODS[n[1]][2] == "app":
            return True
        if n[0] in ("txnlen",) :
            pass
    return False


def sig_only(recipe) -> bool:
    return any(n[0] == "arg" for n in N.recipe_nodes(recipe))


def slot_demand(recipe) -> int:
    """lower bound on distinct scratch slots: one per declared variable (temporaries not counted)"""
    n = len(recipe.get("vars", {}))
    for r in recipe.get("routines", []):
        n += len(r.get("locals", {}))
    return n


def legal(recipe, cfg) -> bool:
    v = cfg["version"]
    if slot_demand(recipe) > 200 and not recipe.get("degenerate"):
        return False  # not claimed (temporaries could push it over 256)
    if slot_demand(recipe) > 256:
        return False
    if v < min_version(recipe):
        return False
    if recipe["mode"] == "sig" and app_only(recipe):
        return False
    if recipe["mode"] == "app" and sig_only(recipe):
        return False
    if cfg.get("frame_pointers") is True and v < 8:
        return False
    if cfg.get("assemble") and v < 3:
        return False
    return True
