"""Hypothesis generators for recipes and transaction contexts.

Soundness rules R1..R6 of DESIGN.md section 1.7 are enforced by construction here.
"""
from __future__ import annotations

from typing import Any, Dict, List, Optional

from hypothesis import strategies as st

from ..avm.context import Ctx
from . import nodes as N

ADDRS = [bytes([i + 1]) * 32 for i in range(4)]
KEYS_U = ["7530", "7531", "7532"]  # "u0" "u1" "u2"
KEYS_B = ["6230", "6231"]  # "b0" "b1"
APP_IDS = [1001, 2002, 3003]
ASSET_IDS = [5005, 6006]

# feature level -> what may be used
U_UN = [("Not", 2), ("BitwiseNot", 2), ("Sqrt", 4), ("BitLen", 4)]
U_BIN = [("Minus", 2), ("Div", 2), ("Mod", 2), ("Lt", 2), ("Gt", 2), ("Le", 2), ("Ge", 2), ("Eq", 2), ("Neq", 2),
         ("BitwiseAnd", 2), ("BitwiseOr", 2), ("BitwiseXor", 2), ("Exp", 4), ("ShiftLeft", 4), ("ShiftRight", 4)]
B_BIN_U = [("EqB", 2), ("NeqB", 2), ("BytesEq", 4), ("BytesNeq", 4), ("BytesLt", 4), ("BytesLe", 4), ("BytesGt", 4), ("BytesGe", 4)]
B_BIN_B = [("BytesAdd", 4), ("BytesMinus", 4), ("BytesMul", 4), ("BytesDiv", 4), ("BytesMod", 4), ("BytesAnd", 4), ("BytesOr", 4), ("BytesXor", 4)]
B_UN = [("Sha256", 2), ("Sha512_256", 2), ("Keccak256", 2), ("Sha3_256", 7), ("BytesNot", 4), ("BytesSqrt", 6)]
TXN_U = ["fee", "amount", "first_valid", "last_valid", "type_enum", "group_index", "application_id", "on_completion", "xfer_asset", "asset_amount"]
TXN_B = ["sender", "receiver", "note", "type", "tx_id", "rekey_to", "lease"]
GLOBAL_U = [("min_txn_fee", 2, "both"), ("group_size", 2, "both"), ("max_txn_life", 2, "both"), ("round", 2, "app"),
            ("latest_timestamp", 2, "app"), ("current_application_id", 2, "app"), ("logic_sig_version", 2, "both"),
            ("caller_app_id", 6, "app"), ("opcode_budget", 6, "both")]
GLOBAL_B = [("zero_address", 2, "both"), ("creator_address", 3, "app"), ("current_application_address", 5, "app"), ("group_id", 5, "both")]


class Cx:
    """Generation context."""

    def __init__(self, in_loop=False, can_jump=True, routine=None, depth=0):
        self.in_loop = in_loop
        self.can_jump = can_jump
        self.routine = routine  # None or dict(ret=..., params={name:(t,kind)}, locals={})
        self.depth = depth

    def sub(self, **kw):
        c = Cx(self.in_loop, self.can_jump, self.routine, self.depth + 1)
        for k, v in kw.items():
            setattr(c, k, v)
        return c

    def operand(self):
        return self.sub(can_jump=False)


class G:
    def __init__(self, draw, mode: str, level: int, budget: int, opts: Optional[dict] = None):
        self.draw = draw
        self.mode = mode
        self.level = level
        self.budget = budget
        self.opts = opts or {}
        self.vars: Dict[str, dict] = {}
        self.routines: List[dict] = []
        self.nvar = 0
        self.used_slots = set()
        self.anytype = False

    # ---- primitives
    def i(self, lo, hi):
        return self.draw(st.integers(lo, hi))

    def pick(self, xs):
        return xs[self.i(0, len(xs) - 1)]

    def chance(self, num, den=10):
        return self.i(1, den) <= num

    def spend(self, n=1):
        self.budget -= n
        return self.budget > 0

    def avail(self, table):
        return [x for x in table if x[1] <= self.level and (len(x) < 3 or x[2] in ("both", self.mode))]

    # ---- variables
    def scope_vars(self, cx: Cx) -> Dict[str, dict]:
        if cx.routine is not None:
            d = dict(self.vars) if self.opts.get("routine_sees_globals", True) else {}
            d.update(cx.routine["locals"])
            for p, (t, kind) in cx.routine["params"].items():
                if kind == "ref":
                    d[p] = {"t": t, "slot": None, "ref": True}
            return d
        return self.vars

    def new_var(self, t: str, cx: Cx, counter=False, plain=False) -> str:
        self.nvar += 1
        name = "v%d" % self.nvar
        slot = None
        if not counter and self.opts.get("explicit_slots", True) and self.chance(2):
            s = self.i(0, 255)
            if s not in self.used_slots:
                self.used_slots.add(s)
                slot = s
        d = {"t": t, "slot": slot}
        if counter:
            d["counter"] = True
        elif slot is None and not plain and self.opts.get("abi_vars") and self.level >= 5 and self.chance(self.opts["abi_vars"]):
            d["kind"] = "abi"
        if cx.routine is not None and not self.opts.get("routine_vars_global", False):
            d["slot"] = None  # explicit ids inside a re-entrant routine would alias by design
            cx.routine["locals"][name] = d
        else:
            self.vars[name] = d
        return name

    def vars_of(self, t: str, cx: Cx, writable=False) -> List[str]:
        return [n for n, d in self.scope_vars(cx).items() if d["t"] == t and not d.get("counter") and d.get("kind") != "dyn"]

    # ---- leaves
    def int_lit(self):
        k = self.i(0, 9)
        if k <= 5:
            return ["int", self.i(0, 12)]
        if k <= 7:
            return ["int", self.i(0, 300)]
        if k == 8:
            return ["int", self.pick([2**32, 2**63, 2**64 - 1, 255, 256, 65535, 2**16])]
        return ["enum", self.pick(sorted(N.ENUMS))]

    def bytes_lit(self):
        k = self.i(0, 9)
        if k <= 5:
            n = self.i(0, 10)
            return ["bytes", bytes(self.draw(st.binary(min_size=n, max_size=n))).hex()]
        if k <= 7:
            return ["str", self.draw(st.text(alphabet="abcXYZ019 _-", max_size=8))]
        if k == 8:
            return ["bytes", (bytes([self.i(0, 255)]) * self.pick([8, 16, 32, 64])).hex()]
        return ["bytes", self.pick(KEYS_U + KEYS_B)]

    def U_leaf(self, cx: Cx):
        k = self.i(0, 9)
        vs = self.vars_of("U", cx)
        if k <= 2 and vs:
            return ["load", self.pick(vs)]
        if k == 3:
            return ["txn", self.pick(TXN_U)]
        if k == 4:
            gl = self.avail(GLOBAL_U)
            return ["global", self.pick(gl)[0]]
        if k == 5 and cx.routine is not None:
            ps = [p for p, (t, kind) in cx.routine["params"].items() if t == "U" and kind == "val"]
            if ps:
                return ["param", self.pick(ps)]
        if k == 6 and self.mode == "app":
            return ["txnlen", self.pick(["application_args", "accounts"])]
        if k == 7 and self.chance(3):
            return ["gtxn", self.i(0, 2), self.pick(TXN_U)]
        return self.int_lit()

    def B_leaf(self, cx: Cx):
        k = self.i(0, 9)
        vs = self.vars_of("B", cx)
        if k <= 2 and vs:
            return ["load", self.pick(vs)]
        if k == 3:
            return ["txn", self.pick(TXN_B)]
        if k == 4:
            if self.mode == "app":
                return ["txna", "application_args", self.i(0, 3)]
            return ["arg", self.i(0, 3)]
        if k == 5:
            gl = self.avail(GLOBAL_B)
            return ["global", self.pick(gl)[0]]
        if k == 6 and cx.routine is not None:
            ps = [p for p, (t, kind) in cx.routine["params"].items() if t == "B" and kind == "val"]
            if ps:
                return ["param", self.pick(ps)]
        if k == 7 and self.mode == "app" and self.chance(5):
            return ["txna", "accounts", self.i(0, 2)]
        return self.bytes_lit()

    # ---- expressions
    def U(self, cx: Cx):
        if not self.spend() or cx.depth > self.opts.get("max_depth", 7):
            return self.U_leaf(cx)
        k = self.i(0, 30)
        o = cx.operand()
        L = self.level
        if k <= 5:
            return self.U_leaf(cx)
        if k == 30:
            if L >= 5 and self.opts.get("wideratio", True):
                # WideRatio over 1..4 numerator and 1..3 denominator factors; factors are arbitrary (compound) expressions
                nn, nd = self.pick([1, 2, 3, 3, 4]), self.pick([1, 1, 2, 3])
                if nn == 1 and nd == 1:
                    nd = 2
                nums = [self.U(o) if self.chance(7) else ["int", self.pick([1, 2, 3, 1000, 2**32])] for _ in range(nn)]
                dens = [["nary", "Add", [self.U(o), ["int", 1]]] if self.chance(6) else ["int", self.pick([1, 2, 7, 2**31])] for _ in range(nd)]
                return ["wideratio", nums, dens]
            return self.U_leaf(cx)
        if k <= 8:
            name = self.pick(["Add", "Add", "Mul", "And", "Or"])
            n = self.pick([2, 2, 2, 3, 3, 4, 5])
            ops = [self.U(o) for _ in range(n)]
            if name == "Mul":
                ops = [x if x[0] != "int" else ["int", x[1] % 7] for x in ops]
            return ["nary", name, ops]
        if k <= 12:
            name = self.pick(self.avail(U_BIN))[0]
            a, b = self.U(o), self.U(o)
            if name == "Minus" and self.chance(7):
                a = ["nary", "Add", [a, ["int", self.pick([1000, 5000, 2**32])]]] if a[0] != "int" else ["int", min(a[1] + 1000, 2**64 - 1)]
                b = b if b[0] != "int" else ["int", b[1] % 1000]
            if name in ("Div", "Mod") and self.chance(8):
                b = ["int", self.i(1, 9)] if self.chance(5) else ["nary", "Add", [b, ["int", 1]]]
            if name in ("ShiftLeft", "ShiftRight") and self.chance(8):
                b = ["int", self.i(0, 63)]
            if name == "Exp" and self.chance(8):
                a = ["int", self.i(0, 6)]
                b = ["int", self.i(0, 12)]
            return ["bin", name, a, b]
        if k == 13:
            name = self.pick(self.avail(U_UN))[0]
            return ["un", name, self.U(o)]
        if k == 14:
            name = self.pick(self.avail(B_BIN_U))[0]
            return ["bin", name, self.B(o), self.B(o)]
        if k == 15:
            return ["un", "Len", self.B(o)]
        if k == 16:
            if self.chance(7):
                return ["un", "Btoi", ["un", "Itob", self.U(o)]] if self.chance(3) else ["un", "Btoi", ["bytes", bytes(self.draw(st.binary(max_size=8))).hex()]]
            return ["un", "Btoi", self.B(o)]
        if k == 17 and L >= 3:
            which = self.i(0, 3)
            if which == 0:
                return ["bin", "GetBit", self.U(o), ["int", self.i(0, 63)] if self.chance(8) else self.U(o)]
            if which == 1:
                return ["bin", "GetBit", self.fixedB(o, 8), ["int", self.i(0, 63)]]
            if which == 2:
                return ["bin", "GetByte", self.fixedB(o, 8), ["int", self.i(0, 7)] if self.chance(8) else self.U(o)]
            return ["tern", "SetBitU", self.U(o), ["int", self.i(0, 63)], ["int", self.i(0, 1)] if self.chance(8) else self.U(o)]
        if k == 18 and L >= 5:
            w = self.pick([16, 32, 64])
            return ["bin", "ExtractUint%d" % w, self.fixedB(o, 8), ["int", self.i(0, 8 - w // 8)] if self.chance(8) else self.U(o)]
        if k <= 20:
            return ["if", self.U(o), self.U(cx.sub()), self.U(cx.sub()), self.pick(["fn", "then"])]
        if k == 21:
            arms = []
            for j in range(self.i(1, 3)):
                arms.append([self.cond_expr(o), self.U(cx.sub())])
            if self.chance(9):
                arms.append([["int", 1], self.U(cx.sub())])
            return ["cond", arms]
        if k <= 24:
            # effectful operand: statements then a value
            stmts = [self.S(cx.sub(can_jump=cx.can_jump and False)) for _ in range(self.i(1, 2))]
            return ["seq", stmts + [self.U(cx.sub())]]
        if k == 25 and self.mode == "app":
            self.anytype = True
            return ["gget", ["bytes", self.pick(KEYS_U)], "U"]
        if k == 26 and self.mode == "app":
            return self.maybe_U(o)
        if k == 27 and self.mode == "app":
            w = self.i(0, 2)
            if w == 0:
                return ["optedin", self.acct(o), self.appref(o)]
            if w == 1 and L >= 3:
                return ["minbalance", self.acct(o)]
            return ["balance", self.acct(o)]
        if k == 28 and L >= 6:
            return ["tern", "Divw", ["int", self.i(0, 3)], self.U(o), ["nary", "Add", [self.U(o), ["int", 4]]]]
        if k == 29 and self.routines and self.opts.get("calls"):
            c = self.call(cx, want="U")
            if c is not None:
                return c
        return self.U_leaf(cx)

    def cond_expr(self, cx: Cx):
        k = self.i(0, 5)
        if k == 0:
            return ["int", self.i(0, 1)]
        if k == 1:
            return ["bin", self.pick(["Lt", "Gt", "Eq", "Neq", "Le", "Ge"]), self.U(cx), self.U(cx)]
        if k == 2:
            return ["un", "Not", self.U(cx)]
        return self.U(cx)

    def fixedB(self, cx: Cx, n: int):
        """bytes expression of length >= n (so that constant indices below n are in range)"""
        k = self.i(0, 3)
        if k == 0:
            return ["bytes", bytes(self.draw(st.binary(min_size=n, max_size=n + 4))).hex()]
        if k == 1 and n <= 8:
            return ["un", "Itob", self.U(cx)]
        if k == 2:
            return ["nary", "Concat", [["bytes", bytes(self.draw(st.binary(min_size=n, max_size=n))).hex()], self.B(cx)]]
        return ["un", "Sha256", self.B(cx)] if n <= 32 else ["bytes", (b"\x5a" * n).hex()]

    def B(self, cx: Cx):
        if not self.spend() or cx.depth > self.opts.get("max_depth", 7):
            return self.B_leaf(cx)
        k = self.i(0, 19)
        o = cx.operand()
        L = self.level
        if k <= 5:
            return self.B_leaf(cx)
        if k <= 7:
            return ["nary", "Concat", [self.B(o) for _ in range(self.pick([2, 2, 3, 4]))]]
        if k == 8:
            return ["un", "Itob", self.U(o)]
        if k == 9:
            name = self.pick(self.avail(B_UN))[0]
            return ["un", name, self.B(o)]
        if k == 10 and L >= 4:
            name = self.pick(self.avail(B_BIN_B))[0]
            a, b = self.B(o), self.B(o)
            if name in ("BytesMinus",) and self.chance(7):
                a = ["nary", "Concat", [["bytes", "01"], a]] if self.chance(5) else a
            if name in ("BytesDiv", "BytesMod") and self.chance(8):
                b = ["bytes", bytes([self.i(1, 255)]).hex()]
            return ["bin", name, a, b]
        if k == 11:
            # substring family with (mostly) in-range constants
            base = self.fixedB(o, 16)
            which = self.i(0, 2)
            const = self.chance(6)
            if which == 0:
                s = self.i(0, 16)
                e = self.i(s, 16)
                if self.chance(3):
                    s, e = self.pick([(0, 255), (3, 300), (256, 256), (300, 301), (250, 260), (255, 257), (10, 256), (0, 256), (1, 256), (255, 256), (0, 511)])
                return ["tern", "Substring", base, ["int", s] if const else self.wrapU(["int", s], o), ["int", e] if (const or self.chance(5)) else self.wrapU(["int", e], o)]
            if which == 1 and L >= 5:
                s = self.i(0, 16)
                l = self.i(0, 16 - s)
                if self.chance(3):
                    s, l = self.pick([(0, 255), (0, 256), (256, 0), (255, 1), (255, 255), (1, 255), (256, 1), (0, 0), (255, 0)])
                return ["tern", "Extract", base, ["int", s] if const else self.wrapU(["int", s], o), ["int", l] if (const or self.chance(5)) else self.wrapU(["int", l], o)]
            s = self.i(0, 16) if self.chance(9) else self.pick([255, 256, 17])
            return ["suffix", base, ["int", s] if const else self.wrapU(["int", s], o)]
        if k == 12 and L >= 3:
            if self.chance(5):
                return ["tern", "SetByte", self.fixedB(o, 8), ["int", self.i(0, 7)], ["int", self.i(0, 255)] if self.chance(8) else self.U(o)]
            return ["tern", "SetBitB", self.fixedB(o, 8), ["int", self.i(0, 63)], ["int", self.i(0, 1)]]
        if k == 13 and L >= 4:
            return ["un", "BytesZero", ["int", self.i(0, 40)] if self.chance(8) else self.U(o)]
        if k <= 15:
            return ["if", self.U(o), self.B(cx.sub()), self.B(cx.sub()), self.pick(["fn", "then"])]
        if k == 16:
            stmts = [self.S(cx.sub(can_jump=False)) for _ in range(self.i(1, 2))]
            return ["seq", stmts + [self.B(cx.sub())]]
        if k == 17 and self.mode == "app":
            self.anytype = True
            return ["gget", ["bytes", self.pick(KEYS_B)], "B"]
        if k == 18 and L >= 7:
            return ["tern", "Replace", self.fixedB(o, 16), ["int", self.i(0, 8)] if self.chance(7) else self.wrapU(["int", self.i(0, 8)], o), ["bytes", bytes(self.draw(st.binary(max_size=8))).hex()]]
        if k == 19 and self.routines and self.opts.get("calls"):
            c = self.call(cx, want="B")
            if c is not None:
                return c
        return self.B_leaf(cx)

    def wrapU(self, lit, cx: Cx):
        """a computed (non-constant) expression with the value of lit (so the non-constant lowering is used)"""
        k = self.i(0, 2)
        if k == 0:
            return ["nary", "Add", [lit, ["int", 0]]]
        if k == 1:
            return ["un", "Btoi", ["un", "Itob", lit]]
        return ["if", ["int", 1], lit, ["int", 0], "fn"]

    def acct(self, cx: Cx):
        k = self.i(0, 4)
        if k <= 1:
            return ["int", self.i(0, 2)]
        if k == 2 and self.level >= 4:
            return ["txn", "sender"]
        if k == 3 and self.level >= 4:
            return ["bytes", self.pick(ADDRS).hex()]
        return ["int", 0]

    def appref(self, cx: Cx):
        k = self.i(0, 3)
        if k == 0:
            return ["int", 0]
        if k == 1:
            return ["int", self.i(0, 2)]
        if k == 2 and self.level >= 4:
            return ["int", self.pick(APP_IDS)]
        return ["global", "current_application_id"]

    def assetref(self, cx: Cx):
        if self.level >= 4 and self.chance(5):
            return ["int", self.pick(ASSET_IDS)]
        return ["int", self.i(0, 1)]

    def maybe_U(self, cx: Cx):
        names = [n for n in N.MAYBE if N.MAYBE_MINV[n] <= self.level]
        name = self.pick(names)
        argt, vt, _, _ = N.MAYBE[name]
        if name == "App.globalGetEx":
            args = [self.appref(cx), ["bytes", self.pick(KEYS_U)]]
        elif name == "App.localGetEx":
            args = [self.acct(cx), self.appref(cx), ["bytes", self.pick(KEYS_U)]]
        elif name.startswith("AssetHolding"):
            args = [self.acct(cx), self.assetref(cx)]
        elif name.startswith("AssetParam"):
            args = [self.assetref(cx)]
        elif name.startswith("AppParam"):
            args = [self.appref(cx)]
        else:
            args = [self.acct(cx)]
        if vt == "B":
            return ["maybe", name, args, "has", None]
        how = self.pick(["has", "val", "ifval", "reducer"])
        if vt == "A":
            self.anytype = True
        return ["maybe", name, args, how, "U"]

    # ---- statements
    def block(self, cx: Cx, lo=1, hi=3):
        n = self.i(lo, hi)
        items = [self.S(cx.sub()) for _ in range(n)]
        if len(items) == 1 and self.chance(5):
            return items[0]
        return ["seq", items]

    def S(self, cx: Cx):
        if not self.spend():
            return self.S_leaf(cx)
        k = self.i(0, 31)
        o = cx.operand()
        L = self.level
        if k <= 5:
            return self.S_leaf(cx)
        if k <= 9:
            c = self.cond_expr(o)
            th = self.block(cx)
            el = self.block(cx) if self.chance(5) else None
            style = self.pick(["fn", "then", "then"])
            if el is not None and self.chance(3):
                el = ["if", self.cond_expr(o), self.block(cx), self.block(cx) if self.chance(5) else None, "then"]
                style = "elseif"
            return ["if", c, th, el, style]
        if k == 10:
            arms = []
            for j in range(self.i(1, 3)):
                b = self.block(cx, 1, 2)
                arm = [self.cond_expr(o), b]
                if b[0] == "seq" and len(b[1]) >= 2 and self.chance(5):
                    arm.append("multi")
                arms.append(arm)
            if self.chance(9):
                arms.append([["int", 1], self.block(cx, 1, 1)])
            return ["cond", arms]
        if k <= 13 and cx.depth < 5 and self.opts.get("loops", True):
            return self.loop(cx)
        if k == 14 and cx.in_loop and cx.can_jump:
            j = ["break"] if self.chance(5) else ["continue"]
            if self.chance(8):
                return ["if", self.cond_expr(o), j, None, self.pick(["fn", "then"])]
            return j
        if k == 15 and cx.can_jump and self.opts.get("returns", True):
            r = self.ret(cx)
            if self.chance(8):
                return ["if", self.cond_expr(o), r, None, self.pick(["fn", "then"])]
            return r
        if k == 16:
            conds = [self.U(o) if self.chance(2) else self.truthy(o) for _ in range(self.pick([1, 1, 2, 3]))]
            cm = self.draw(st.text(alphabet="abc xyz", max_size=6)) if self.chance(3) else None
            return ["assert", conds, cm]
        if k == 17 and self.mode == "app" and L >= 5 and self.opts.get("itxn", True):
            return self.itxn(o)
        if k == 18 and self.routines and self.opts.get("calls"):
            c = self.call(cx, want="N")
            if c is not None:
                return c
        if k == 19:
            return ["seq", [self.S(cx.sub()) for _ in range(self.i(0, 3))]]
        if k == 23 and cx.can_jump and self.opts.get("no_init") and self.opts.get("returns", True):
            # a store that sits in the same block as an exit, inside a conditional arm, followed by a use on the
            # fall-through path (the arm's store must not count for the sibling path)
            t = "U"
            v = self.new_var(t, cx, plain=True)
            arm = ["seq", [["store", v, self.U(o)], self.ret(cx)]]
            use = ["pop", ["load", v]]
            w = self.i(0, 3)
            if w == 0:
                return ["seq", [["if", self.cond_expr(o), arm, None, self.pick(["fn", "then"])], use]]
            if w == 1:
                return ["seq", [["if", self.cond_expr(o), arm, ["pop", ["int", 1]], "then"], use]]
            if w == 2:
                return ["seq", [["cond", [[self.cond_expr(o), arm], [["int", 1], ["pop", ["int", 2]]]]], use]]
            return ["seq", [["store", v, ["int", 1]], ["if", self.cond_expr(o), arm, None, "fn"], use]]
        if k in (21, 22):
            # optimiser trigger: a store immediately followed by a load of the same variable
            t = self.pick(["U", "U", "B"])
            vs = self.vars_of(t, cx)
            v = self.pick(vs) if vs and self.chance(5) else self.new_var(t, cx, plain=True)
            val = self.U(o) if t == "U" else self.B(o)
            use = ["load", v]
            if t == "U":
                use = self.pick([use, ["nary", "Add", [use, ["int", self.i(0, 3)]]], ["bin", "Eq", use, self.U(o)]])
                return ["seq", [["store", v, val], self.observe(cx, use)]]
            return ["seq", [["store", v, val], ["pop", ["un", "Len", use]] if not (self.mode == "app" and L >= 5) else ["log", use]]]
        if k == 20 and self.mode == "app" and L >= 8 and self.chance(5):
            return ["boxput", ["bytes", self.pick(["6278", "6279"])], ["bytes", bytes(self.draw(st.binary(min_size=4, max_size=4))).hex()]]
        return self.S_leaf(cx)

    def truthy(self, cx: Cx):
        k = self.i(0, 3)
        if k == 0:
            return ["int", self.i(1, 5)]
        if k == 1:
            return ["bin", "Ge", self.U(cx), ["int", 0]]
        if k == 2:
            return ["bin", "Le", ["un", "Len", self.B(cx)], ["int", 4096]]
        return ["nary", "Or", [self.U(cx), ["int", 1]]]

    def S_leaf(self, cx: Cx):
        k = self.i(0, 9)
        o = cx.operand()
        if k <= 3:
            t = self.pick(["U", "U", "B"])
            vs = self.vars_of(t, cx)
            if vs and self.chance(6):
                v = self.pick(vs)
            else:
                v = self.new_var(t, cx)
            return ["store", v, self.U(o) if t == "U" else self.B(o)]
        if k <= 5:
            if self.mode == "app" and self.level >= 5:
                return ["log", self.B(o)]
            if self.mode == "app":
                return ["gput", ["bytes", self.pick(KEYS_B)], self.B(o)]
            return ["pop", self.U(o)]
        if k == 6 and self.mode == "app":
            w = self.i(0, 4)
            if w == 0:
                return ["gput", ["bytes", self.pick(KEYS_U)], self.U(o)]
            if w == 1:
                return ["gput", ["bytes", self.pick(KEYS_B)], self.B(o)]
            if w == 2:
                return ["gdel", ["bytes", self.pick(KEYS_U + KEYS_B)]]
            if w == 3:
                return ["lput", self.acct(o), ["bytes", self.pick(KEYS_U)], self.U(o)]
            return ["ldel", self.acct(o), ["bytes", self.pick(KEYS_U)]]
        if k == 7:
            return ["pop", self.U(o) if self.chance(5) else self.B(o)]
        if k == 8 and self.level >= 0 and self.chance(3):
            return ["comment", self.draw(st.text(alphabet="abc xyz", max_size=6)), None]
        t = "U"
        vs = self.vars_of(t, cx)
        v = self.pick(vs) if vs else self.new_var(t, cx)
        return ["store", v, self.U(o)]

    def ret(self, cx: Cx):
        if cx.routine is None:
            k = self.i(0, 3)
            if k == 0:
                return ["approve"]
            if k == 1:
                return ["reject"]
            return ["return", self.U(cx.operand())]
        rt = cx.routine["ret"]
        if self.chance(1):
            return ["approve"] if self.chance(5) else ["reject"]
        if rt == "N":
            return ["return", None]
        return ["return", self.U(cx.operand()) if rt == "U" else self.B(cx.operand())]

    def loop(self, cx: Cx):
        ctr = self.new_var("U", cx, counter=True)
        bound = self.pick([0, 1, 2, 2, 3, 4])
        cond = ["bin", "Lt", ["load", ctr], ["int", bound]]
        if self.chance(2):
            cond = ["nary", "And", [cond, self.cond_expr(cx.operand())]]
        inc = ["store", ctr, ["nary", "Add", [["load", ctr], ["int", 1]]]]
        bcx = cx.sub(in_loop=True)
        shape = self.i(0, 11)
        if shape == 0:
            body_items = [["break"]]
        elif shape == 1:
            body_items = [["continue"]]
        elif shape == 2:
            body_items = []
        elif shape in (5, 6) and cx.can_jump and cx.depth < 4:
            # nested loops with Continue/Break at both levels, every stage observable
            ictr = self.new_var("U", cx, counter=True)
            ibound = self.pick([1, 2, 3])
            icond = ["bin", "Lt", ["load", ictr], ["int", ibound]]
            iinc = ["store", ictr, ["nary", "Add", [["load", ictr], ["int", 1]]]]
            jump = lambda: ["if", self.cond_expr(cx.operand()), self.pick([["continue"], ["continue"], ["break"]]), None, self.pick(["fn", "then"])]  # noqa
            ibody = [self.observe(bcx, ["nary", "Add", [["nary", "Mul", [["load", ctr], ["int", 10]]], ["load", ictr]]])]
            if self.chance(7):
                ibody.append(jump())
            ibody.append(self.observe(bcx, ["nary", "Add", [["load", ictr], ["int", 100]]]))
            if self.chance(5):
                inner = ["for", ["store", ictr, ["int", 0]], icond, iinc, ["seq", ibody]]
            else:
                inner = ["seq", [["store", ictr, ["int", 0]], ["while", icond, ["seq", [iinc] + ibody]]]]
            body_items = [self.observe(bcx, ["nary", "Add", [["load", ctr], ["int", 1000]]])]
            if self.chance(5):
                body_items.append(jump())
            body_items.append(inner)
            if self.chance(5):
                body_items.append(jump())
            body_items.append(self.observe(bcx, ["nary", "Add", [["load", ctr], ["int", 2000]]]))
        elif shape in (3, 4) and cx.can_jump:
            # observable statements followed by an unconditional tail Break / Continue
            body_items = [self.observe(bcx, ["nary", "Add", [["load", ctr], ["int", self.i(0, 50)]]])]
            body_items += [self.S(bcx) for _ in range(self.i(0, 2))]
            body_items.append(["break"] if shape == 3 else ["continue"])
        else:
            body_items = [self.S(bcx) for _ in range(self.i(1, 3))]
        if not cx.can_jump:
            bcx.can_jump = False
        after = [self.observe(cx, ["load", ctr])] if self.chance(5) else []
        if self.chance(5):
            body = ["seq", [inc] + body_items]
            return ["seq", [["store", ctr, ["int", 0]], ["while", cond, body]] + after]
        body = ["seq", body_items] if len(body_items) != 1 or self.chance(5) else body_items[0]
        loop = ["for", ["store", ctr, ["int", 0]], cond, inc, body]
        return ["seq", [loop] + after] if after else loop

    def observe(self, cx: Cx, uexpr):
        """a statement that makes the uint64 value of uexpr observable in the run's outcome"""
        if self.mode == "app" and self.level >= 5 and self.chance(7):
            return ["log", ["un", "Itob", uexpr]]
        if self.mode == "app":
            return ["gput", ["bytes", self.pick(KEYS_U)], uexpr]
        return ["assert", [["bin", "Lt", uexpr, ["int", self.pick([1, 2, 3, 5, 60])]]], None]

    def itxn(self, cx: Cx):
        txns = []
        for _ in range(self.pick([1, 1, 2] if self.level >= 6 else [1])):
            fields = [["type_enum", ["enum", "TxnType.Payment"] if self.chance(5) else ["int", 1]]]
            if self.chance(7):
                fields.append(["amount", self.U(cx)])
            if self.chance(5):
                fields.append(["receiver", ["txn", "sender"] if self.chance(5) else ["bytes", self.pick(ADDRS).hex()]])
            if self.chance(4):
                fields.append(["note", self.B(cx)])
            if self.chance(3):
                fields.append(["fee", ["int", self.i(0, 2000)]])
            order = self.draw(st.permutations(list(range(len(fields)))))
            txns.append([fields[j] for j in order])
        style = self.pick(["setfield", "setfields", "execute"])
        if style == "execute" and len(txns) != 1:
            style = "setfield"
        return ["itxn", txns, style]

    # ---- calls (filled by the C02 generator)
    def call(self, cx: Cx, want: str, only=None):
        cands = [i for i, r in enumerate(self.routines) if r["ret"] == want and r.get("callable", True)]
        if cx.routine is not None:
            cands = [i for i in cands if i in cx.routine.get("may_call", [])]
        if only is not None:
            cands = [i for i in cands if i == only]
        if not cands:
            return None
        idx = self.pick(cands)
        r = self.routines[idx]
        args = []
        o = cx.operand()
        for p in r["params"]:
            pname, pt_, kind = p
            if pname == "fuel":
                if cx.routine is not None and "fuel" in cx.routine["params"]:
                    args.append(["bin", "Minus", ["param", "fuel"], ["int", 1]])
                else:
                    args.append(["int", self.i(0, 3)])
            elif kind == "ref":
                vs = [n for n, d in self.scope_vars(cx).items() if d["t"] == pt_ and not d.get("counter") and d.get("kind") != "abi"]
                if not vs:
                    vs = [self.new_var(pt_, cx, counter=False, plain=True)]
                # hand a by-reference parameter of the current routine on to the callee (two-level forwarding) when possible
                fwd = [n for n in vs if self.scope_vars(cx)[n].get("ref")]
                args.append(["ref", self.pick(fwd) if fwd and self.chance(7) else self.pick(vs)])
            else:
                args.append(self.U(o) if pt_ == "U" else self.B(o))
        node = ["call" if want != "N" else "callN", idx, args]
        if cx.routine is not None and "fuel" in cx.routine["params"]:
            # R5: recursion only under a fuel guard
            dflt = None if want == "N" else (["int", 0] if want == "U" else ["bytes", ""])
            return ["if", ["bin", "Gt", ["param", "fuel"], ["int", 0]], node, dflt, "fn"]
        return node


def init_stores(vars_: Dict[str, dict]) -> List[list]:
    out = []
    for name, d in vars_.items():
        if d.get("kind") == "dyn":
            continue
        out.append(["store", name, ["int", 0] if d["t"] == "U" else ["bytes", ""]])
    return out


def f6_guard_loads(body_items, names) -> List[list]:
    """Finding F6 exclusion by construction: a routine-local variable with exactly one load and two or more stores
    can have its `store k; load k` pair cancelled by the slot optimiser, which then deletes the other stores and leaves
    their operands on the stack.  Giving such a variable a second load keeps the optimiser from cancelling it.
    Returns extra statements (to be placed right after the initialising stores)."""
    loads = {n: 0 for n in names}
    stores = {n: 0 for n in names}
    for it in body_items:
        for nd in N.walk(it):
            if nd[0] == "load" and nd[1] in loads:
                loads[nd[1]] += 1
            elif nd[0] == "store" and nd[1] in stores:
                stores[nd[1]] += 1
    return [["pop", ["load", n]] for n in names if loads[n] == 1 and stores[n] >= 1]


@st.composite
def core_recipe(draw, max_budget=40, opts=None):
    """Single-routine recipe over the core grammar (C01)."""
    mode = draw(st.sampled_from(["app", "app", "app", "sig"]))
    level = draw(st.sampled_from([2, 3, 4, 5, 6, 6, 7, 8, 8, 10]))
    budget = draw(st.integers(3, max_budget))
    g = G(draw, mode, level, budget, opts)
    cx = Cx()
    stmts = [g.S(cx.sub()) for _ in range(g.i(1, 4))]
    final = g.U(cx.sub()) if g.chance(7) else ["return", g.U(cx.operand())]
    main_items = stmts + [final]
    guard = f6_guard_loads(main_items, [n for n, d in g.vars.items() if d.get("kind") != "dyn"])
    init = init_stores(g.vars)
    if g.opts.get("no_init"):
        init, guard = [], []
    recipe = {"mode": mode, "level": level, "vars": g.vars, "routines": [], "main": ["seq", init + guard + main_items]}
    if guard:
        recipe["f6_guards"] = len(guard)
    if g.anytype:
        recipe["anytype"] = True
    return recipe


@st.composite
def contexts(draw, mode="app", n=3):
    out = []
    for _ in range(n):
        out.append(draw(one_context(mode)))
    return out


@st.composite
def one_context(draw, mode="app"):
    i = lambda lo, hi: draw(st.integers(lo, hi))  # noqa
    nargs = i(4, 7) if i(0, 9) else i(0, 3)  # mostly enough arguments for the constant indices 0..3 the generators use
    args = []
    for _ in range(nargs):
        k = i(0, 3)
        if k == 0:
            args.append(i(0, 2**64 - 1).to_bytes(8, "big") if i(0, 1) else i(0, 300).to_bytes(8, "big"))
        else:
            args.append(draw(st.binary(max_size=12)))
    gsize = 3 if i(0, 9) else i(1, 2)
    group = []
    for gi in range(gsize):
        t = {
            "Sender": ADDRS[i(0, 3)],
            "Fee": i(0, 3000),
            "Amount": i(0, 10**6) if i(0, 1) else 0,
            "FirstValid": i(0, 1000),
            "LastValid": i(1000, 3000),
            "TypeEnum": draw(st.sampled_from([1, 4, 6, 6])),
            "Note": draw(st.binary(max_size=6)),
            "Receiver": ADDRS[i(0, 3)],
            "TxID": bytes([gi + 65]) * 32,
            "ApplicationID": draw(st.sampled_from([0, 1001, 1001])),
            "OnCompletion": draw(st.sampled_from([0, 0, 1, 2, 4, 5])),
            "XferAsset": draw(st.sampled_from([0] + ASSET_IDS)),
            "AssetAmount": i(0, 50),
            "ApplicationArgs": list(args) if gi == 0 or i(0, 1) else [],
            "Accounts": [ADDRS[i(0, 3)] for _ in range(i(2, 3) if i(0, 9) else i(0, 1))],
            "Applications": [draw(st.sampled_from(APP_IDS)) for _ in range(i(0, 2))],
            "Assets": [draw(st.sampled_from(ASSET_IDS)) for _ in range(i(0, 2))],
        }
        group.append(t)
    gidx = i(0, gsize - 1)
    group[gidx]["ApplicationArgs"] = list(args)
    gstate = {}
    for k in KEYS_U:
        if i(0, 2):
            gstate[bytes.fromhex(k)] = i(0, 100) if i(0, 3) else i(0, 2**64 - 1)
    for k in KEYS_B:
        if i(0, 2):
            gstate[bytes.fromhex(k)] = draw(st.binary(max_size=10))
    lstate = {}
    for a in ADDRS[: i(0, 3)]:
        for app in [1001] + ([2002] if i(0, 2) == 0 else []):
            s = {}
            for k in KEYS_U:
                if i(0, 1):
                    s[bytes.fromhex(k)] = i(0, 100)
            lstate[(a, app)] = s
    other = {2002: {bytes.fromhex(KEYS_U[0]): i(0, 9)}} if i(0, 1) else {}
    assets = {5005: {"AssetTotal": i(1, 10**6), "AssetDecimals": i(0, 6), "AssetName": b"coin", "AssetManager": ADDRS[0]}} if i(0, 2) else {}
    holdings = {}
    if i(0, 1):
        holdings[(ADDRS[i(0, 3)], 5005)] = {"AssetBalance": i(0, 1000), "AssetFrozen": i(0, 1)}
    apps = {1001: {"AppCreator": ADDRS[1], "AppGlobalNumUint": 3}, 2002: {"AppCreator": ADDRS[2], "AppGlobalNumUint": i(0, 5)}} if i(0, 2) else {}
    accounts = {a: {"AcctBalance": i(0, 10**7), "AcctMinBalance": 100000 * i(1, 3), "AcctAuthAddr": bytes(32)} for a in ADDRS[: i(0, 4)]}
    globals_ = {
        "MinTxnFee": 1000, "MinBalance": 100000, "MaxTxnLife": 1000, "LogicSigVersion": 10, "Round": i(1, 10**6),
        "LatestTimestamp": i(1, 2 * 10**9), "CreatorAddress": ADDRS[1], "CurrentApplicationAddress": bytes([0xAA]) * 32,
        "GroupID": bytes([0xBB]) * 32, "OpcodeBudget": 700, "CallerApplicationID": draw(st.sampled_from([0, 2002])),
        "CallerApplicationAddress": bytes(32),
    }
    lsig_args = [draw(st.binary(max_size=10)) for _ in range(i(4, 5) if i(0, 9) else i(0, 3))]
    return Ctx(mode, group, gidx, lsig_args, globals_, 1001, gstate, lstate, other, assets, holdings, apps, accounts, {})
