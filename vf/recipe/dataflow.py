"""Independent definite-assignment analysis on recipes (C17 oracle).

For every routine (main and each subroutine reachable from main through syntactic calls) computes the set of
routine-local variables for which some load is reachable along a control-flow path with no prior store.
All branches are considered feasible; code after Return/Approve/Reject/Err is unreachable.
Semantics of the constructs are those of DESIGN.md section 1.7 (operands left to right, And/Or not
short-circuit, Cond arms tested in order, While: cond-body-cond, For: start-cond-body-step-cond)."""
from __future__ import annotations

from typing import Dict, List, Optional, Set, Tuple

from . import nodes as N

BOT = None


def meet(*states):
    live = [s for s in states if s is not BOT]
    if not live:
        return BOT
    out = set(live[0])
    for s in live[1:]:
        out &= s
    return frozenset(out)


class Flow:
    def __init__(self, tracked: Set[str], dead_code_reachable: bool = False, routines=None):
        self.routines = routines or []
        self.tracked = tracked
        self.dead = dead_code_reachable  # conservative variant: code after an exit is treated as reachable
        self.flagged: Set[str] = set()
        self.breaks: List[List] = []
        self.conts: List[List] = []

    def ev(self, n, s):
        """state after evaluating n from state s (BOT = unreachable)"""
        if s is BOT:
            return BOT
        t = n[0]
        if t == "load":
            if n[1] in self.tracked and n[1] not in s:
                self.flagged.add(n[1])
            return s
        if t == "store":
            s = self.ev(n[2], s)
            if s is BOT:
                return BOT
            return frozenset(s | {n[1]})
        if t in ("return",):
            if n[1] is not None:
                s = self.ev(n[1], s)
            return s if self.dead else BOT
        if t in ("approve", "reject", "err"):
            return s if self.dead else BOT
        if t == "break":
            if self.breaks:
                self.breaks[-1].append(s)
            return s if self.dead else BOT
        if t == "continue":
            if self.conts:
                self.conts[-1].append(s)
            return s if self.dead else BOT
        if t == "seq":
            for x in n[1]:
                s = self.ev(x, s)
            return s
        if t == "if":
            s = self.ev(n[1], s)
            a = self.ev(n[2], s)
            b = self.ev(n[3], s) if n[3] is not None else s
            return meet(a, b)
        if t == "cond":
            outs = []
            for arm in n[1]:
                s = self.ev(arm[0], s)
                outs.append(self.ev(arm[1], s))
            return meet(*outs)
        if t == "assert":
            for c in n[1]:
                s = self.ev(c, s)
            return s
        if t == "while":
            head = s
            while True:
                self.breaks.append([])
                self.conts.append([])
                sc = self.ev(n[1], head)
                body = self.ev(n[2], sc)
                brks = self.breaks.pop()
                conts = self.conts.pop()
                new_head = meet(s, body, *conts)
                if new_head == head:
                    return meet(sc, *brks)
                head = new_head
        if t == "for":
            s0 = self.ev(n[1], s)
            head = s0
            while True:
                self.breaks.append([])
                self.conts.append([])
                sc = self.ev(n[2], head)
                body = self.ev(n[4], sc)
                brks = self.breaks.pop()
                conts = self.conts.pop()
                step_in = meet(body, *conts)
                step_out = self.ev(n[3], step_in)
                new_head = meet(s0, step_out)
                if new_head == head:
                    return meet(sc, *brks)
                head = new_head
        if t in ("call", "callN") and 0 <= n[1] < len(self.routines):
            # the builder materialises ABI-typed arguments (tmp.set(arg)) in front of the call expression: they are
            # evaluated first, in order, then the remaining arguments in order (same order as vf/recipe/eval.py)
            params = self.routines[n[1]]["params"]
            pairs = list(zip(params, n[2]))
            order = [a for p_, a in pairs if p_[2] == "abi"] + [a for p_, a in pairs if p_[2] != "abi"] + list(n[2][len(pairs):])
            for a in order:
                if isinstance(a, list) and a and a[0] == "ref":
                    continue
                s = self.ev(a, s)
                if s is BOT:
                    return BOT
            return s
        # generic: children left to right
        for c in N.children(n):
            s = self.ev(c, s)
            if s is BOT:
                return BOT
        return s


def routine_vars(recipe) -> Dict[Optional[int], Set[str]]:
    """variables referenced (load/store) per routine; key None = main"""
    out: Dict[Optional[int], Set[str]] = {None: set()}

    def scan(body, key):
        out.setdefault(key, set())
        for nd in N.walk(body):
            if nd[0] in ("load", "store", "index") and isinstance(nd[1], str):
                out[key].add(nd[1])

    scan(recipe["main"], None)
    for i, r in enumerate(recipe.get("routines", [])):
        scan(r["body"], i)
    return out


def reachable_routines(recipe) -> Set[int]:
    seen: Set[int] = set()
    todo = [recipe["main"]]
    while todo:
        body = todo.pop()
        for nd in N.walk(body):
            if nd[0] in ("call", "callN") and nd[1] not in seen:
                seen.add(nd[1])
                todo.append(recipe["routines"][nd[1]]["body"])
    return seen


def analyse(recipe, dead_code_reachable: bool = False) -> Dict[Optional[int], Set[str]]:
    """routine key -> set of its local variables with a reachable load lacking a prior store on some path"""
    used = routine_vars(recipe)
    reach = reachable_routines(recipe)
    keys = [None] + sorted(reach)
    result: Dict[Optional[int], Set[str]] = {}
    for k in keys:
        mine = set(used.get(k, set()))
        if k is not None:
            mine = {v for v in mine if v in recipe["routines"][k].get("locals", {})} | {v for v in mine if v in recipe.get("vars", {})}
        others = set()
        for k2 in keys:
            if k2 != k:
                others |= used.get(k2, set())
        local = mine - others
        # by-reference parameters and dynamic variables are not tracked
        if k is not None:
            local -= {p[0] for p in recipe["routines"][k]["params"]}
        fl = Flow(local, dead_code_reachable, recipe.get("routines", []))
        body = recipe["main"] if k is None else recipe["routines"][k]["body"]
        fl.ev(body, frozenset())
        result[k] = fl.flagged
    return result
