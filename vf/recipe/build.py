"""Recipe -> PyTeal objects, through the public constructors only. Every build creates fresh objects."""
from __future__ import annotations

from typing import Any, Dict, List, Optional

from .nodes import BINARY, NARY, TERNARY, UNARY, RecipeError, typeof

_CTOR_ALIAS = {"EqB": "Eq", "NeqB": "Neq", "SetBitU": "SetBit", "SetBitB": "SetBit"}


def teal_type(pt, t):
    return {"U": pt.TealType.uint64, "B": pt.TealType.bytes, "N": pt.TealType.none, "A": pt.TealType.anytype}[t]


class AbiVar:
    """An ABI value used as a plain variable: abi.Uint64 for 'U', abi.String for 'B' (scratch-backed in the main routine,
    a frame cell inside routines compiled with frame pointers)."""

    def __init__(self, pt, t):
        self.v = pt.abi.Uint64() if t == "U" else pt.abi.String()

    def load(self):
        return self.v.get()

    def store(self, e):
        return self.v.set(e)


class Scope:
    def __init__(self, params=None, locals_=None, routine=None):
        self.params = params or {}
        self.locals = locals_ or {}
        self.routine = routine


class Builder:
    def __init__(self, recipe: dict, pt=None, name_override: Optional[Dict[int, str]] = None):
        if pt is None:
            import pyteal as pt  # noqa
        self.pt = pt
        self.recipe = recipe
        self.vars: Dict[str, Any] = {}
        self.dvars: Dict[str, Any] = {}
        for name, d in recipe.get("vars", {}).items():
            if d.get("kind") == "dyn":
                self.dvars[name] = pt.DynamicScratchVar(teal_type(pt, d["t"]))
            elif d.get("kind") == "abi":
                self.vars[name] = AbiVar(pt, d["t"])
            elif d.get("slot") is not None:
                self.vars[name] = pt.ScratchVar(teal_type(pt, d["t"]), d["slot"])
            else:
                self.vars[name] = pt.ScratchVar(teal_type(pt, d["t"]))
        self.routines: List[Any] = []
        self.locals_built: List[Dict[str, Any]] = []
        self.name_override = name_override or {}
        for i, r in enumerate(recipe.get("routines", [])):
            self.routines.append(self._make_routine(i, r))
        self.tenv = {"vars": recipe.get("vars", {}), "routines": recipe.get("routines", [])}

    # ------------------------------------------------------------------ routines
    def _make_routine(self, idx: int, r: dict):
        pt = self.pt
        pnames = [p[0] for p in r["params"]]

        def impl(**kw):
            locs = {}
            for name, d in r.get("locals", {}).items():
                if d.get("kind") == "abi":
                    locs[name] = AbiVar(pt, d["t"])
                elif d.get("slot") is not None:
                    locs[name] = pt.ScratchVar(teal_type(pt, d["t"]), d["slot"])
                else:
                    locs[name] = pt.ScratchVar(teal_type(pt, d["t"]))
            self.locals_built.append(locs)
            sc = Scope(kw, locs, idx)
            return self.expr(r["body"], sc)

        is_abi = r.get("kind") == "abi"
        abi_t = {"U": "abi.Uint64", "B": "abi.String"}
        anns = []
        for p in r["params"]:
            anns.append("%s: %s" % (p[0], "ScratchVar" if p[2] == "ref" else (abi_t[p[1]] if p[2] == "abi" else "Expr")))
        if is_abi and r["ret"] != "N":
            anns.append("*")
            anns.append("output: %s" % abi_t[r["ret"]])
            pnames = pnames + ["output"]
        src = "def fn(%s) -> Expr:\n    return impl(%s)\n" % (", ".join(anns), ", ".join("%s=%s" % (n, n) for n in pnames))
        g = {"impl": impl if not is_abi else (lambda **kw: impl_abi(**kw)), "ScratchVar": pt.ScratchVar, "Expr": pt.Expr, "abi": pt.abi}

        def impl_abi(**kw):
            out = kw.pop("output", None)
            body = impl(**kw)
            return out.set(body) if out is not None else body

        exec(compile(src, "<recipe-routine>", "exec", dont_inherit=True), g)  # dont_inherit: no postponed annotations
        fn = g["fn"]
        name = self.name_override.get(idx, r["name"])
        fn.__name__ = "fn_%d" % idx
        if is_abi:
            return pt.ABIReturnSubroutine(fn, overriding_name=name)
        return pt.Subroutine(teal_type(pt, r["ret"]), name=name)(fn)

    # ------------------------------------------------------------------ helpers
    def var(self, name: str, sc: Scope):
        if name in sc.params:
            return sc.params[name]
        if name in sc.locals:
            return sc.locals[name]
        if name in self.vars:
            return self.vars[name]
        raise RecipeError("unknown variable %r" % name)

    def idx(self, x, sc):
        return x if isinstance(x, int) else self.expr(x, sc)

    def default(self, t):
        return self.pt.Int(0) if t == "U" else self.pt.Bytes(b"")

    def build(self):
        return self.expr(self.recipe["main"], Scope())

    # ------------------------------------------------------------------ nodes
    def expr(self, n, sc: Scope):
        pt = self.pt
        t = n[0]
        E = lambda x: self.expr(x, sc)  # noqa
        if t == "int":
            return pt.Int(n[1])
        if t == "bytes":
            return pt.Bytes(bytes.fromhex(n[1]))
        if t == "str":
            return pt.Bytes(n[1])
        if t in ("b16", "b32", "b64"):
            return pt.Bytes({"b16": "base16", "b32": "base32", "b64": "base64"}[t], n[1])
        if t == "addr":
            return pt.Addr(n[1])
        if t == "msig":
            return pt.MethodSignature(n[1])
        if t == "tmpli":
            return pt.Tmpl.Int(n[1])
        if t == "tmplb":
            return pt.Tmpl.Bytes(n[1])
        if t == "tmpla":
            return pt.Tmpl.Addr(n[1])
        if t == "enum":
            cls, mem = n[1].split(".")
            return getattr(getattr(pt, cls), mem)
        if t == "txn":
            return getattr(pt.Txn, n[1])()
        if t == "gtxn":
            return getattr(pt.Gtxn[self.idx(n[1], sc)], n[2])()
        if t == "txna":
            return getattr(pt.Txn, n[1])[self.idx(n[2], sc)]
        if t == "gtxna":
            return getattr(pt.Gtxn[self.idx(n[1], sc)], n[2])[self.idx(n[3], sc)]
        if t == "txnlen":
            return getattr(pt.Txn, n[1]).length()
        if t == "global":
            return getattr(pt.Global, n[1])()
        if t == "arg":
            return pt.Arg(self.idx(n[1], sc))
        if t == "load":
            return self.var(n[1], sc).load()
        if t == "param":
            v = sc.params[n[1]]
            return v.get() if isinstance(v, pt.abi.BaseType) else v
        if t == "index":
            return self.var(n[1], sc).index()
        if t == "un":
            return getattr(pt, n[1])(E(n[2]))
        if t == "bin":
            return getattr(pt, _CTOR_ALIAS.get(n[1], n[1]))(E(n[2]), E(n[3]))
        if t == "nary":
            return getattr(pt, n[1])(*[E(x) for x in n[2]])
        if t == "tern":
            return getattr(pt, _CTOR_ALIAS.get(n[1], n[1]))(E(n[2]), E(n[3]), E(n[4]))
        if t == "suffix":
            return pt.Suffix(E(n[1]), E(n[2]))
        if t == "wideratio":
            return pt.WideRatio([E(x) for x in n[1]], [E(x) for x in n[2]])
        if t == "seq":
            items = [E(x) for x in n[1]]
            if len(n) > 2 and n[2] == "list":
                return pt.Seq(items)
            return pt.Seq(*items)
        if t == "nop":
            return pt.Seq()
        if t == "if":
            style = n[4] if len(n) > 4 else "fn"
            c, th, el = E(n[1]), E(n[2]), (E(n[3]) if n[3] is not None else None)
            if style == "fn":
                return pt.If(c, th, el) if el is not None else pt.If(c, th)
            if style == "elseif" and n[3] is not None and n[3][0] == "if":
                # flatten one level: If(c).Then(t).ElseIf(c2).Then(t2)[.Else(e2)]
                inner = n[3]
                x = pt.If(c).Then(th).ElseIf(E(inner[1])).Then(E(inner[2]))
                if inner[3] is not None:
                    x = x.Else(E(inner[3]))
                return x
            x = pt.If(c).Then(th)
            if el is not None:
                x = x.Else(el)
            return x
        if t == "cond":
            arms = []
            for arm in n[1]:
                c, b = arm[0], arm[1]
                if b[0] == "seq" and len(b[1]) >= 2 and len(arm) > 2 and arm[2] == "multi":
                    arms.append([E(c)] + [E(x) for x in b[1]])
                else:
                    arms.append([E(c), E(b)])
            return pt.Cond(*arms)
        if t == "while":
            return pt.While(E(n[1])).Do(E(n[2]))
        if t == "for":
            return pt.For(E(n[1]), E(n[2]), E(n[3])).Do(E(n[4]))
        if t == "break":
            return pt.Break()
        if t == "continue":
            return pt.Continue()
        if t == "assert":
            conds = [E(x) for x in n[1]]
            if len(n) > 2 and n[2] is not None:
                return pt.Assert(*conds, comment=n[2])
            return pt.Assert(*conds)
        if t == "return":
            return pt.Return(E(n[1])) if n[1] is not None else pt.Return()
        if t == "approve":
            return pt.Approve()
        if t == "reject":
            return pt.Reject()
        if t == "err":
            return pt.Err()
        if t == "pop":
            return pt.Pop(E(n[1]))
        if t == "log":
            return pt.Log(E(n[1]))
        if t == "store":
            return self.var(n[1], sc).store(E(n[2]))
        if t == "gput":
            return pt.App.globalPut(E(n[1]), E(n[2]))
        if t == "gdel":
            return pt.App.globalDel(E(n[1]))
        if t == "gget":
            return pt.App.globalGet(E(n[1]))
        if t == "lput":
            return pt.App.localPut(E(n[1]), E(n[2]), E(n[3]))
        if t == "ldel":
            return pt.App.localDel(E(n[1]), E(n[2]))
        if t == "lget":
            return pt.App.localGet(E(n[1]), E(n[2]))
        if t == "optedin":
            return pt.App.optedIn(E(n[1]), E(n[2]))
        if t == "balance":
            return pt.Balance(E(n[1]))
        if t == "minbalance":
            return pt.MinBalance(E(n[1]))
        if t == "maybe":
            cls, meth = n[1].split(".")
            mv = getattr(getattr(pt, cls), meth)(*[E(x) for x in n[2]])
            how = n[3]
            ut = typeof(n, None)
            if how == "has":
                return pt.Seq(mv, mv.hasValue())
            if how == "val":
                return pt.Seq(mv, mv.value())
            if how == "ifval":
                return pt.Seq(mv, pt.If(mv.hasValue(), mv.value(), self.default(ut)))
            if how == "reducer":
                d = self.default(ut)
                return mv.outputReducer(lambda value, has: pt.If(has, value, d))
            raise RecipeError("maybe how=%r" % how)
        if t in ("call", "callN"):
            r = self.recipe["routines"][n[1]]
            args = []
            pre = []
            for p, a in zip(r["params"], n[2]):
                if isinstance(a, list) and a and a[0] == "ref":
                    args.append(self.var(a[1], sc))
                elif p[2] == "abi":
                    tmp = pt.abi.Uint64() if p[1] == "U" else pt.abi.String()
                    pre.append(tmp.set(E(a)))
                    args.append(tmp)
                else:
                    args.append(E(a))
            call = self.routines[n[1]](*args)
            if r.get("kind") == "abi" and r["ret"] != "N":
                out = pt.abi.Uint64() if r["ret"] == "U" else pt.abi.String()
                return pt.Seq(*pre, call.store_into(out), out.get())
            if pre:
                return pt.Seq(*pre, call)
            return call
        if t == "itxn":
            style = n[2] if len(n) > 2 else "setfield"
            B = pt.InnerTxnBuilder
            _E = E
            E = lambda v: [_E(x) for x in v[1]] if v[0] == "arr" else _E(v)  # noqa
            if style == "execute" and len(n[1]) == 1:
                return B.Execute({getattr(pt.TxnField, f): E(v) for f, v in n[1][0]})
            parts = [B.Begin()]
            for i, txn in enumerate(n[1]):
                if i:
                    parts.append(B.Next())
                if style == "setfields":
                    parts.append(B.SetFields({getattr(pt.TxnField, f): E(v) for f, v in txn}))
                else:
                    for f, v in txn:
                        parts.append(B.SetField(getattr(pt.TxnField, f), E(v)))
            parts.append(B.Submit())
            return pt.Seq(*parts)
        if t == "comment":
            if len(n) > 2 and n[2] is not None:
                return pt.Comment(n[1], E(n[2]))
            return pt.Comment(n[1])
        if t == "pragma":
            return pt.Pragma(E(n[2]), compiler_version=n[1])
        if t == "boxput":
            return pt.App.box_put(E(n[1]), E(n[2]))
        if t == "boxdel":
            return pt.Pop(pt.App.box_delete(E(n[1])))
        if t == "dsetidx":
            return self.dvars[n[1]].set_index(self.var(n[2], sc))
        if t == "dload":
            return self.dvars[n[1]].load()
        if t == "dstore":
            return self.dvars[n[1]].store(E(n[2]))
        raise RecipeError("cannot build node %r" % (t,))


def build(recipe, pt=None):
    return Builder(recipe, pt).build()
