"""Generators for programs with subroutines (C02/C03/C20 ...): call graphs incl. self and mutual recursion."""
from __future__ import annotations

from hypothesis import strategies as st

from . import nodes as N

from .gen import G, Cx, init_stores, f6_guard_loads


def potential_cycles(may_call):
    """indices of routines that lie on a cycle of the potential call graph"""
    n = len(may_call)
    reach = [set(m) for m in may_call]
    changed = True
    while changed:
        changed = False
        for i in range(n):
            new = set(reach[i])
            for j in list(reach[i]):
                new |= reach[j]
            if new != reach[i]:
                reach[i] = new
                changed = True
    return {i for i in range(n) if i in reach[i]}


def tail_if(g, cx, ret):
    """An If/Else in tail position of a routine whose arms return / fall through in every combination
    (has_return bookkeeping decides whether the compiler appends the closing retsub)."""
    o = cx.operand()

    def work():
        return g.S_leaf(cx.sub())

    def retn():
        if ret == "N":
            return ["return", None]
        return ["return", g.U(o) if ret == "U" else g.B(o)]

    def val():
        return g.U(cx.sub()) if ret == "U" else g.B(cx.sub())

    c = g.cond_expr(o)
    style = g.pick(["fn", "then"])
    if ret == "N":
        k = g.i(0, 4)
        if k == 0:
            return ["if", c, work(), retn(), style]
        if k == 1:
            return ["if", c, retn(), work(), style]
        if k == 2:
            return ["if", c, retn(), retn(), style]
        if k == 3:
            return ["if", c, ["seq", [work(), retn()]], work(), style]
        return ["if", c, work(), ["seq", [work(), retn()]], style]
    k = g.i(0, 3)
    if k == 0:
        return ["if", c, retn(), retn(), style]
    if k == 1:
        return ["if", c, val(), val(), style]
    if k == 2:
        return ["seq", [["if", c, retn(), None, style], val()]]
    return ["if", c, ["seq", [work(), retn()]], ["seq", [work(), retn()]], style]


@st.composite
def sub_recipe(draw, max_budget=60, opts=None, min_level=4):
    opts = dict(opts or {})
    opts.setdefault("calls", True)
    opts.setdefault("abi_vars", 2)
    mode = draw(st.sampled_from(["app", "app", "app", "sig"]))
    level = draw(st.sampled_from([v for v in [4, 5, 6, 6, 7, 8, 8, 10] if v >= min_level]))
    budget = draw(st.integers(8, max_budget))
    g = G(draw, mode, level, budget, opts)
    nr = g.pick([1, 1, 2, 2, 3, 4])
    # signatures + potential call graph
    shape = g.pick(["dag", "self", "mutual", "any", "any", "diamond"])
    if shape == "diamond":
        nr = g.pick([4, 4, 5])
    may = []
    for i in range(nr):
        if shape == "diamond":
            # two (or three) different callees of routine 0 lead back to it through one shared routine
            m = list(range(1, nr - 1)) if i == 0 else ([nr - 1] if i < nr - 1 else [0])
        elif shape == "dag":
            m = [j for j in range(i + 1, nr) if g.chance(6)]
        elif shape == "self":
            m = [i] + [j for j in range(i + 1, nr) if g.chance(4)]
        elif shape == "mutual":
            m = [j for j in range(nr) if j != i or g.chance(3)]
        else:
            m = [j for j in range(nr) if g.chance(5)]
        may.append(m)
    cyc = potential_cycles(may)
    for i in range(nr):
        params = [["fuel", "U", "val"]]
        for k in range(g.pick([0, 0, 1, 1, 2, 3])):
            t = g.pick(["U", "U", "B"])
            kind = "val"
            if i not in cyc and opts.get("refs", True) and g.chance(4 if shape == "dag" else 3):
                kind = "ref"
            params.append(["p%d" % k, t, kind])
        ret = g.pick(["U", "U", "B", "N"])
        kind = "sub"
        if level >= 5 and opts.get("abi_routines", True) and g.chance(3):
            kind = "abi"
            params = [[p[0], p[1], "abi" if (p[2] == "val" and p[0] != "fuel" and g.chance(6)) else p[2]] for p in params]
        g.routines.append({"name": g.pick(["f", "g", "helper", "r"]) + str(i), "kind": kind, "params": params, "ret": ret,
                           "locals": {}, "body": None, "may_call": may[i]})
    # a few global variables shared by main and the routines
    cxm = Cx()
    for _ in range(g.i(0, 2)):
        g.new_var(g.pick(["U", "B"]), cxm)
    # routine bodies
    nguards = 0
    for i, r in enumerate(g.routines):
        rinfo = {"ret": r["ret"], "params": {p[0]: (p[1], "val" if p[2] == "abi" else p[2]) for p in r["params"]}, "locals": {}, "may_call": r["may_call"]}
        cx = Cx(routine=rinfo)
        is_abi = r["kind"] == "abi"
        if is_abi:
            cx.can_jump = False  # an ABIReturnSubroutine body sets its output; no Return/Break/Continue generated inside
        for _ in range(g.i(0, 2)):
            g.new_var(g.pick(["U", "B"]), cx)
        g.budget = max(g.budget, 6)
        stmts = [g.S(cx.sub()) for _ in range(g.i(0, 3))]
        if shape == "diamond":
            # every edge of the diamond is taken, with a local variable written before each call and observed after it
            for callee in r["may_call"]:
                lv = g.new_var("U", cx)
                stmts.append(["store", lv, ["nary", "Add", [["param", "fuel"], ["int", 100 * (i + 1) + callee]]]])
                c = g.call(cx.sub(), want=g.routines[callee]["ret"], only=callee)
                if c is not None:
                    tgt = c[2] if c[0] == "if" else c
                    stmts.append(c if g.routines[tgt[1]]["ret"] == "N" else ["pop", c])
                marker = ["nary", "Add", [["param", "fuel"], ["int", 100 * (i + 1) + callee]]]
                stmts.append(["assert", [["bin", "Eq", ["load", lv], marker]], None])
                if mode == "app" and level >= 5:
                    stmts.append(["log", ["un", "Itob", ["load", lv]]])
        # make sure recursion happens reasonably often
        elif r["may_call"] and g.chance(7):
            c = g.call(cx.sub(), want=g.routines[g.pick(r["may_call"])]["ret"])
            if c is not None:
                tgt = c[2] if c[0] == "if" else c
                rt = g.routines[tgt[1]]["ret"]
                if rt == "N":
                    stmts.append(c)
                elif rt == "U":
                    vs = g.vars_of("U", cx) or [g.new_var("U", cx)]
                    stmts.append(["store", g.pick(vs), ["nary", "Add", [["int", g.i(0, 9)], c]]] if g.chance(5) else ["pop", c])
                else:
                    stmts.append(["pop", c])
                if g.chance(6):
                    stmts.append(g.S(cx.sub()))
        if r["ret"] == "N":
            body_items = stmts
            if g.chance(4) and not is_abi:
                body_items = stmts + [tail_if(g, cx, "N")]
        elif g.chance(2) and not is_abi:
            body_items = stmts + [tail_if(g, cx, r["ret"])]
        else:
            final = g.U(cx.sub()) if r["ret"] == "U" else g.B(cx.sub())
            if g.chance(3) and not is_abi:
                final = ["return", final]
            body_items = stmts + [final]
        r["locals"] = rinfo["locals"]
        guard = f6_guard_loads(body_items, list(rinfo["locals"]))
        nguards += len(guard)
        r["body"] = ["seq", ([] if opts.get("no_init") else init_stores(rinfo["locals"]) + guard) + body_items]
    # main
    g.budget = max(g.budget, 8)
    stmts = [g.S(cxm.sub()) for _ in range(g.i(1, 3))]
    for _ in range(g.i(1, 2)):
        idx = g.i(0, nr - 1)
        c = g.call(cxm.sub(), want=g.routines[idx]["ret"])
        if c is None:
            continue
        rt = g.routines[c[1]]["ret"]
        if rt == "N":
            stmts.append(c)
        elif rt == "U":
            # call nested inside an operand with a pending left operand
            stmts.append(["pop", ["bin", "Minus", ["nary", "Add", [["int", 2**40], g.U(cxm.operand())]], ["nary", "Mul", [c, ["int", g.i(0, 3)]]]]] if g.chance(5) else ["pop", c])
            if mode == "app" and level >= 5 and g.chance(7):
                stmts[-1] = ["log", ["un", "Itob", stmts[-1][1]]]
        else:
            stmts.append(["log", c] if (mode == "app" and level >= 5) else ["pop", c])
    if shape == "diamond":
        c = g.call(cxm.sub(), want=g.routines[0]["ret"], only=0)
        if c is not None:
            c[2][0] = ["int", g.pick([3, 3, 4, 6])]
            stmts.append(c if g.routines[0]["ret"] == "N" else ["pop", c])
    final = g.U(cxm.sub()) if g.chance(7) else ["return", g.U(cxm.operand())]
    for r in g.routines:
        r.pop("callable", None)
    used_in_routines = set()
    for r in g.routines:
        for nd in N.walk(r["body"]):
            if nd[0] in ("load", "store") and nd[1] in g.vars:
                used_in_routines.add(nd[1])
            if nd[0] in ("call", "callN"):
                for a in nd[2]:
                    if isinstance(a, list) and a and a[0] == "ref":
                        used_in_routines.add(a[1])
    guard = f6_guard_loads(stmts + [final], [n for n in g.vars if n not in used_in_routines])
    nguards += len(guard)
    recipe = {"mode": mode, "level": max(level, 4), "vars": g.vars, "routines": g.routines, "main": ["seq", ([] if opts.get("no_init") else init_stores(g.vars) + guard) + stmts + [final]]}
    if nguards:
        recipe["f6_guards"] = nguards
    if g.anytype:
        recipe["anytype"] = True
    return recipe
