"""Recipe language: plain-data program trees (JSON-able lists), their static types and tables.

Node = [tag, ...].  Types: 'U' uint64, 'B' bytes, 'N' none, 'A' anytype.
A recipe = {"mode": "app"|"sig", "vars": {name: {"t": 'U'|'B', "slot": int|None}}, "routines": [...], "main": node}
Routine = {"name": str, "kind": "sub"|"abi", "params": [[pname, 'U'|'B', 'val'|'ref'], ...], "ret": 'U'|'B'|'N',
           "locals": {name: {"t":..,"slot":None}}, "body": node}
"""
from __future__ import annotations

from typing import Any, Dict, List, Optional

# ---- tables: constructor name -> (TEAL op, operand types, result type, min version)
UNARY = {
    "Not": ("!", "U", "U", 2),
    "BitwiseNot": ("~", "U", "U", 2),
    "Len": ("len", "B", "U", 2),
    "Itob": ("itob", "U", "B", 2),
    "Btoi": ("btoi", "B", "U", 2),
    "Sqrt": ("sqrt", "U", "U", 4),
    "BitLen": ("bitlen", "A", "U", 4),
    "Sha256": ("sha256", "B", "B", 2),
    "Sha512_256": ("sha512_256", "B", "B", 2),
    "Keccak256": ("keccak256", "B", "B", 2),
    "Sha3_256": ("sha3_256", "B", "B", 7),
    "BytesNot": ("b~", "B", "B", 4),
    "BytesSqrt": ("bsqrt", "B", "B", 6),
    "BytesZero": ("bzero", "U", "B", 4),
}
BINARY = {
    "Minus": ("-", "UU", "U", 2),
    "Div": ("/", "UU", "U", 2),
    "Mod": ("%", "UU", "U", 2),
    "Exp": ("exp", "UU", "U", 4),
    "Lt": ("<", "UU", "U", 2),
    "Gt": (">", "UU", "U", 2),
    "Le": ("<=", "UU", "U", 2),
    "Ge": (">=", "UU", "U", 2),
    "Eq": ("==", "UU", "U", 2),
    "Neq": ("!=", "UU", "U", 2),
    "EqB": ("==", "BB", "U", 2),
    "NeqB": ("!=", "BB", "U", 2),
    "BitwiseAnd": ("&", "UU", "U", 2),
    "BitwiseOr": ("|", "UU", "U", 2),
    "BitwiseXor": ("^", "UU", "U", 2),
    "ShiftLeft": ("shl", "UU", "U", 4),
    "ShiftRight": ("shr", "UU", "U", 4),
    "GetBit": ("getbit", "AU", "U", 3),
    "GetByte": ("getbyte", "BU", "U", 3),
    "BytesAdd": ("b+", "BB", "B", 4),
    "BytesMinus": ("b-", "BB", "B", 4),
    "BytesDiv": ("b/", "BB", "B", 4),
    "BytesMul": ("b*", "BB", "B", 4),
    "BytesMod": ("b%", "BB", "B", 4),
    "BytesAnd": ("b&", "BB", "B", 4),
    "BytesOr": ("b|", "BB", "B", 4),
    "BytesXor": ("b^", "BB", "B", 4),
    "BytesEq": ("b==", "BB", "U", 4),
    "BytesNeq": ("b!=", "BB", "U", 4),
    "BytesLt": ("b<", "BB", "U", 4),
    "BytesLe": ("b<=", "BB", "U", 4),
    "BytesGt": ("b>", "BB", "U", 4),
    "BytesGe": ("b>=", "BB", "U", 4),
    "ExtractUint16": ("extract_uint16", "BU", "U", 5),
    "ExtractUint32": ("extract_uint32", "BU", "U", 5),
    "ExtractUint64": ("extract_uint64", "BU", "U", 5),
}
NARY = {
    "Add": ("+", "U", "U"),
    "Mul": ("*", "U", "U"),
    "And": ("&&", "U", "U"),
    "Or": ("||", "U", "U"),
    "Concat": ("concat", "B", "B"),
}
TERNARY = {
    "SetBitU": ("setbit", "UUU", "U", 3),
    "SetBitB": ("setbit", "BUU", "B", 3),
    "SetByte": ("setbyte", "BUU", "B", 3),
    "Substring": (None, "BUU", "B", 2),
    "Extract": (None, "BUU", "B", 5),
    "Divw": ("divw", "UUU", "U", 6),
    "Replace": (None, "BUB", "B", 7),
}

# pyteal accessor method -> (TEAL field, type)
TXN_METHODS = {
    "sender": ("Sender", "B"), "fee": ("Fee", "U"), "first_valid": ("FirstValid", "U"), "last_valid": ("LastValid", "U"),
    "note": ("Note", "B"), "lease": ("Lease", "B"), "receiver": ("Receiver", "B"), "amount": ("Amount", "U"),
    "close_remainder_to": ("CloseRemainderTo", "B"), "vote_pk": ("VotePK", "B"), "selection_pk": ("SelectionPK", "B"),
    "vote_first": ("VoteFirst", "U"), "vote_last": ("VoteLast", "U"), "vote_key_dilution": ("VoteKeyDilution", "U"),
    "type": ("Type", "B"), "type_enum": ("TypeEnum", "U"), "xfer_asset": ("XferAsset", "U"), "asset_amount": ("AssetAmount", "U"),
    "asset_sender": ("AssetSender", "B"), "asset_receiver": ("AssetReceiver", "B"), "asset_close_to": ("AssetCloseTo", "B"),
    "group_index": ("GroupIndex", "U"), "tx_id": ("TxID", "B"), "application_id": ("ApplicationID", "U"),
    "on_completion": ("OnCompletion", "U"), "approval_program": ("ApprovalProgram", "B"),
    "clear_state_program": ("ClearStateProgram", "B"), "rekey_to": ("RekeyTo", "B"), "config_asset": ("ConfigAsset", "U"),
    "config_asset_total": ("ConfigAssetTotal", "U"), "config_asset_decimals": ("ConfigAssetDecimals", "U"),
    "config_asset_default_frozen": ("ConfigAssetDefaultFrozen", "U"), "config_asset_unit_name": ("ConfigAssetUnitName", "B"),
    "config_asset_name": ("ConfigAssetName", "B"), "config_asset_url": ("ConfigAssetURL", "B"),
    "config_asset_metadata_hash": ("ConfigAssetMetadataHash", "B"), "config_asset_manager": ("ConfigAssetManager", "B"),
    "config_asset_reserve": ("ConfigAssetReserve", "B"), "config_asset_freeze": ("ConfigAssetFreeze", "B"),
    "config_asset_clawback": ("ConfigAssetClawback", "B"), "freeze_asset": ("FreezeAsset", "U"),
    "freeze_asset_account": ("FreezeAssetAccount", "B"), "freeze_asset_frozen": ("FreezeAssetFrozen", "U"),
    "global_num_uints": ("GlobalNumUint", "U"), "global_num_byte_slices": ("GlobalNumByteSlice", "U"),
    "local_num_uints": ("LocalNumUint", "U"), "local_num_byte_slices": ("LocalNumByteSlice", "U"),
    "extra_program_pages": ("ExtraProgramPages", "U"), "nonparticipation": ("Nonparticipation", "U"),
    "created_asset_id": ("CreatedAssetID", "U"), "created_application_id": ("CreatedApplicationID", "U"),
    "last_log": ("LastLog", "B"), "state_proof_pk": ("StateProofPK", "B"), "first_valid_time": ("FirstValidTime", "U"),
}
TXN_ARRAYS = {
    "application_args": ("ApplicationArgs", "B", "NumAppArgs"),
    "accounts": ("Accounts", "B", "NumAccounts"),
    "assets": ("Assets", "U", "NumAssets"),
    "applications": ("Applications", "U", "NumApplications"),
    "logs": ("Logs", "B", "NumLogs"),
    "approval_program_pages": ("ApprovalProgramPages", "B", "NumApprovalProgramPages"),
    "clear_state_program_pages": ("ClearStateProgramPages", "B", "NumClearStateProgramPages"),
}
GLOBAL_METHODS = {
    "min_txn_fee": ("MinTxnFee", "U", "both"), "min_balance": ("MinBalance", "U", "both"),
    "max_txn_life": ("MaxTxnLife", "U", "both"), "zero_address": ("ZeroAddress", "B", "both"),
    "group_size": ("GroupSize", "U", "both"), "logic_sig_version": ("LogicSigVersion", "U", "both"),
    "round": ("Round", "U", "app"), "latest_timestamp": ("LatestTimestamp", "U", "app"),
    "current_application_id": ("CurrentApplicationID", "U", "app"), "creator_address": ("CreatorAddress", "B", "app"),
    "current_application_address": ("CurrentApplicationAddress", "B", "app"), "group_id": ("GroupID", "B", "both"),
    "opcode_budget": ("OpcodeBudget", "U", "both"), "caller_app_id": ("CallerApplicationID", "U", "app"),
    "caller_app_address": ("CallerApplicationAddress", "B", "app"),
    "asset_create_min_balance": ("AssetCreateMinBalance", "U", "both"),
    "asset_opt_in_min_balance": ("AssetOptInMinBalance", "U", "both"), "genesis_hash": ("GenesisHash", "B", "both"),
}
ENUMS = {
    "OnComplete.NoOp": 0, "OnComplete.OptIn": 1, "OnComplete.CloseOut": 2, "OnComplete.ClearState": 3,
    "OnComplete.UpdateApplication": 4, "OnComplete.DeleteApplication": 5,
    "TxnType.Unknown": 0, "TxnType.Payment": 1, "TxnType.KeyRegistration": 2, "TxnType.AssetConfig": 3,
    "TxnType.AssetTransfer": 4, "TxnType.AssetFreeze": 5, "TxnType.ApplicationCall": 6,
}
# MaybeValue forms: name -> (arg types, value type, TEAL op, field)
MAYBE = {
    "App.globalGetEx": ("UB", "A", "app_global_get_ex", None),
    "App.localGetEx": ("AUB", "A", "app_local_get_ex", None),
    "AssetHolding.balance": ("AU", "U", "asset_holding_get", "AssetBalance"),
    "AssetHolding.frozen": ("AU", "U", "asset_holding_get", "AssetFrozen"),
    "AssetParam.total": ("U", "U", "asset_params_get", "AssetTotal"),
    "AssetParam.decimals": ("U", "U", "asset_params_get", "AssetDecimals"),
    "AssetParam.name": ("U", "B", "asset_params_get", "AssetName"),
    "AssetParam.manager": ("U", "B", "asset_params_get", "AssetManager"),
    "AppParam.creator": ("U", "B", "app_params_get", "AppCreator"),
    "AppParam.globalNumUint": ("U", "U", "app_params_get", "AppGlobalNumUint"),
    "AccountParam.balance": ("A", "U", "acct_params_get", "AcctBalance"),
    "AccountParam.authAddr": ("A", "B", "acct_params_get", "AcctAuthAddr"),
}
MAYBE_MINV = {"App.globalGetEx": 2, "App.localGetEx": 2, "AssetHolding.balance": 2, "AssetHolding.frozen": 2,
              "AssetParam.total": 2, "AssetParam.decimals": 2, "AssetParam.name": 2, "AssetParam.manager": 2,
              "AppParam.creator": 5, "AppParam.globalNumUint": 5, "AccountParam.balance": 6, "AccountParam.authAddr": 6}

STMT_TAGS = {"break", "continue", "assert", "return", "approve", "reject", "err", "pop", "log", "store", "gput", "gdel",
             "lput", "ldel", "while", "for", "itxn", "comment", "callN", "boxput", "boxdel", "dstore", "dsetidx", "nop"}


class RecipeError(Exception):
    pass


def typeof(n, env: Optional[dict] = None) -> str:
    """Static type of a node. env: {'vars': {...}, 'routines': [...], 'params': {name: type}}"""
    t = n[0]
    if t in ("int", "enum", "gsize"):
        return "U"
    if t in ("bytes", "str", "addr", "b16", "b32", "b64", "msig", "tmplb", "tmpla"):
        return "B"
    if t == "tmpli":
        return "U"
    if t == "txn":
        return TXN_METHODS[n[1]][1]
    if t == "gtxn":
        return TXN_METHODS[n[2]][1]
    if t == "txna":
        return TXN_ARRAYS[n[1]][1]
    if t == "gtxna":
        return TXN_ARRAYS[n[2]][1]
    if t == "txnlen":
        return "U"
    if t == "global":
        return GLOBAL_METHODS[n[1]][1]
    if t == "arg":
        return "B"
    if t == "load":
        return _vartype(n[1], env)
    if t == "param":
        return env["params"][n[1]][0] if env else "A"
    if t == "un":
        return UNARY[n[1]][2]
    if t == "bin":
        return BINARY[n[1]][2]
    if t == "nary":
        return NARY[n[1]][2]
    if t == "tern":
        return TERNARY[n[1]][2]
    if t == "suffix":
        return "B"
    if t == "seq":
        return typeof(n[1][-1], env) if n[1] else "N"
    if t == "if":
        return typeof(n[2], env) if n[3] is not None else "N"
    if t == "cond":
        return typeof(n[1][0][-1], env)
    if t in ("gget", "lget"):
        return n[-1]  # declared use type (value is anytype in PyTeal)
    if t == "maybe":
        how = n[3]
        if how == "has":
            return "U"
        vt = MAYBE[n[1]][1]
        if how == "val":
            return n[4] if vt == "A" else vt
        return n[4] if len(n) > 4 and n[4] else vt
    if t in ("optedin", "balance", "minbalance"):
        return "U"
    if t == "call":
        return env["routines"][n[1]]["ret"] if env else "A"
    if t == "index":
        return "U"
    if t == "dload":
        return n[2]
    if t == "wideratio":
        return "U"
    if t == "boxget":
        return "B"
    if t == "comment":
        return typeof(n[2], env) if len(n) > 2 and n[2] is not None else "N"
    if t == "pragma":
        return typeof(n[2], env)
    if t in STMT_TAGS:
        return "N"
    raise RecipeError("unknown node tag %r" % (t,))


def _vartype(name, env):
    if env is None:
        return "A"
    if name in env.get("params", {}):
        return env["params"][name][0]
    for scope in (env.get("locals", {}), env.get("vars", {})):
        if name in scope:
            return scope[name]["t"]
    raise RecipeError("unknown variable %r" % name)


def children(n) -> List[Any]:
    """Direct child nodes (for generic traversal / shrinking)."""
    t = n[0]
    if t in ("un",):
        return [n[2]]
    if t == "bin":
        return [n[2], n[3]]
    if t == "nary":
        return list(n[2])
    if t == "tern":
        return [n[2], n[3], n[4]]
    if t == "suffix":
        return [n[1], n[2]]
    if t == "seq":
        return list(n[1])
    if t == "if":
        return [x for x in (n[1], n[2], n[3]) if x is not None]
    if t == "cond":
        return [x for arm in n[1] for x in arm]
    if t == "while":
        return [n[1], n[2]]
    if t == "for":
        return [n[1], n[2], n[3], n[4]]
    if t == "assert":
        return list(n[1])
    if t == "return":
        return [n[1]] if n[1] is not None else []
    if t in ("pop", "log"):
        return [n[1]]
    if t == "store":
        return [n[2]]
    if t == "gput":
        return [n[1], n[2]]
    if t == "gdel":
        return [n[1]]
    if t == "gget":
        return [n[1]]
    if t == "lput":
        return [n[1], n[2], n[3]]
    if t == "ldel":
        return [n[1], n[2]]
    if t == "lget":
        return [n[1], n[2]]
    if t == "maybe":
        return list(n[2])
    if t in ("optedin",):
        return [n[1], n[2]]
    if t in ("balance", "minbalance"):
        return [n[1]]
    if t == "txna" and isinstance(n[2], list):
        return [n[2]]
    if t == "gtxna" and isinstance(n[3], list):
        return [n[3]]
    if t in ("call", "callN"):
        return [a for a in n[2] if isinstance(a, list) and a and a[0] != "ref"]
    if t == "itxn":
        out = []
        for txn in n[1]:
            for _f, v in txn:
                if v[0] == "arr":
                    out.extend(v[1])
                else:
                    out.append(v)
        return out
    if t == "comment":
        return [n[2]] if len(n) > 2 and n[2] is not None else []
    if t == "pragma":
        return [n[2]]
    if t == "wideratio":
        return list(n[1]) + list(n[2])
    if t in ("boxput",):
        return [n[1], n[2]]
    if t in ("boxdel", "boxget"):
        return [n[1]]
    if t == "dstore":
        return [n[2]]
    return []


def walk(n):
    yield n
    for c in children(n):
        yield from walk(c)


def size(n) -> int:
    return sum(1 for _ in walk(n))


def tags(n):
    return {x[0] for x in walk(n)}


def recipe_nodes(recipe):
    yield from walk(recipe["main"])
    for r in recipe.get("routines", []):
        yield from walk(r["body"])
