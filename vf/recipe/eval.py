"""Reference evaluator: PyTeal's documented source semantics on recipes (never looks at the compiler)."""
from __future__ import annotations

from typing import Any, Dict, List, Optional

from ..avm import prims as P
from ..avm.prims import Panic, Unsupported, want_b, want_u
from ..avm.context import Ctx, World
from ..avm.interp import BudgetExceeded
from .nodes import BINARY, MAYBE, NARY, TERNARY, TXN_ARRAYS, TXN_METHODS, GLOBAL_METHODS, UNARY, ENUMS, RecipeError, typeof
from ..teal import parser as tp


class _Return(Exception):
    def __init__(self, v):
        self.v = v


class _Break(Exception):
    pass


class _Continue(Exception):
    pass


class _Exit(Exception):
    def __init__(self, v):
        self.v = v


class Cell:
    __slots__ = ("v", "written", "slot", "name")

    def __init__(self, name, slot=None):
        self.v = 0
        self.written = False
        self.slot = slot
        self.name = name


class Frame:
    def __init__(self, params=None, locals_=None, routine=None):
        self.params = params or {}
        self.locals = locals_ or {}
        self.routine = routine


class EvalResult:
    def __init__(self):
        self.verdict = "fail"
        self.value = None
        self.events: List[tuple] = []
        self.panic = None
        self.panic_msg = ""
        self.slots: Dict[int, Any] = {}
        self.steps = 0
        self.max_depth = 0
        self.reentered = False
        self.flags = set()

    def observable(self):
        if self.verdict == "fail":
            return ("fail",)
        return (self.verdict, self.value, tuple(self.events))


_TERN = {
    "SetBitU": P.setbit,
    "SetBitB": P.setbit,
    "SetByte": P.setbyte,
    "Substring": P.substring3,
    "Extract": P.extract3,
    "Divw": P.divw,
    "Replace": P.replace,
}


class Evaluator:
    def __init__(self, recipe: dict, ctx: Ctx, budget: int = 100_000):
        self.recipe = recipe
        self.world = World(ctx)
        self.budget = budget
        self.steps = 0
        self.gcells: Dict[str, Cell] = {n: Cell(n, d.get("slot")) for n, d in recipe.get("vars", {}).items()}
        self.dptr: Dict[str, Optional[Cell]] = {}
        self.routines = recipe.get("routines", [])
        self.depth = 0
        self.max_depth = 0
        self.active: List[int] = []
        self.flags = set()

    def run(self) -> EvalResult:
        res = EvalResult()
        try:
            try:
                v = self.ev(self.recipe["main"], Frame())
            except _Exit as e:
                v = e.v
            except (_Return, _Break, _Continue):
                raise RecipeError("control escape at top level")
            if v is None:
                raise RecipeError("main produced no value")
            want_u(v)
            res.verdict = "approve" if v != 0 else "reject"
            res.value = v
            res.events = list(self.world.events)
        except Panic as p:
            res.verdict = "fail"
            res.panic = p.kind
            res.panic_msg = p.msg
        res.slots = {c.slot: c.v for c in self.gcells.values() if c.slot is not None and c.written}
        res.steps = self.steps
        res.max_depth = self.max_depth
        res.flags = self.flags
        res.world = self.world
        return res

    # ------------------------------------------------------------------
    def cell(self, name: str, fr: Frame) -> Cell:
        if name in fr.params:
            c = fr.params[name]
            if not isinstance(c, Cell):
                raise RecipeError("param %s is not by-reference" % name)
            return c
        if name in fr.locals:
            return fr.locals[name]
        if name in self.gcells:
            return self.gcells[name]
        raise RecipeError("unknown variable %r" % name)

    def abi_bytes(self, name, fr) -> bool:
        d = None
        if fr.routine is not None:
            d = self.routines[fr.routine].get("locals", {}).get(name)
        if d is None:
            d = self.recipe.get("vars", {}).get(name)
        return bool(d) and d.get("kind") == "abi" and d.get("t") == "B"

    def idx(self, x, fr):
        return x if isinstance(x, int) else want_u(self.ev(x, fr))

    def ev(self, n, fr: Frame):
        self.steps += 1
        if self.steps > self.budget:
            raise BudgetExceeded()
        t = n[0]
        W = self.world
        E = lambda x: self.ev(x, fr)  # noqa
        if t == "int":
            return n[1]
        if t == "bytes":
            return bytes.fromhex(n[1])
        if t == "str":
            return n[1].encode("utf-8")
        if t == "b16":
            return bytes.fromhex(n[1][2:] if n[1].startswith("0x") else n[1])
        if t == "b32":
            return tp.decode_base32(n[1])
        if t == "b64":
            import base64

            return base64.b64decode(n[1])
        if t == "addr":
            return tp.decode_address(n[1])
        if t == "msig":
            return tp.method_selector(n[1].encode("utf-8"))
        if t == "enum":
            return ENUMS[n[1]]
        if t in ("tmpli", "tmplb", "tmpla"):
            v = self.recipe.get("tmpl", {}).get(n[1])
            if v is None:
                raise Unsupported("template %s not substituted" % n[1])
            return v if t == "tmpli" else bytes.fromhex(v)
        if t == "txn":
            return W.txn_field(TXN_METHODS[n[1]][0])
        if t == "gtxn":
            return W.gtxn_field(self.idx(n[1], fr), TXN_METHODS[n[2]][0])
        if t == "txna":
            return W.txn_array(TXN_ARRAYS[n[1]][0], self.idx(n[2], fr))
        if t == "gtxna":
            gi = self.idx(n[1], fr)
            return W.gtxn_array(gi, TXN_ARRAYS[n[2]][0], self.idx(n[3], fr))
        if t == "txnlen":
            return W.txn_field(TXN_ARRAYS[n[1]][2])
        if t == "global":
            return W.global_field(GLOBAL_METHODS[n[1]][0])
        if t == "arg":
            return W.arg(self.idx(n[1], fr))
        if t == "load":
            c = self.cell(n[1], fr)
            return c.v
        if t == "param":
            v = fr.params[n[1]]
            if isinstance(v, Cell):
                raise RecipeError("by-ref param used as value")
            return v
        if t == "index":
            c = self.cell(n[1], fr)
            if c.slot is None:
                raise Unsupported("index() of an automatically numbered slot has no source-level value")
            return c.slot
        if t == "un":
            return P.UNARY[UNARY[n[1]][0]](E(n[2]))
        if t == "bin":
            a = E(n[2])
            b = E(n[3])
            op = BINARY[n[1]][0]
            if op in P.BIN_U:
                return P.BIN_U[op](a, b)
            if op in P.BIN_B:
                return P.BIN_B[op](a, b)
            if op == "getbit":
                return P.getbit(a, b)
            if op == "getbyte":
                return P.getbyte(a, b)
            if op.startswith("extract_uint"):
                return P.extract_uint(a, b, int(op[12:]) // 8)
            raise RecipeError("bin op " + op)
        if t == "nary":
            op = NARY[n[1]][0]
            f = P.concat if op == "concat" else P.BIN_U[op]
            vals = [E(x) for x in n[2]]
            acc = vals[0]
            if len(vals) == 1:
                # PyTeal's n-ary forms need >= 2 operands; a single operand just type-checks
                if op == "concat":
                    want_b(acc)
                else:
                    want_u(acc)
                return acc
            for v in vals[1:]:
                acc = f(acc, v)
            return acc
        if t == "tern":
            a = E(n[2])
            b = E(n[3])
            c = E(n[4])
            return _TERN[n[1]](a, b, c)
        if t == "suffix":
            s = E(n[1])
            st = E(n[2])
            s = want_b(s)
            want_u(st)
            if st > len(s):
                raise Panic("BOUNDS", "suffix start beyond length")
            return s[st:]
        if t == "wideratio":
            nums = [want_u(E(x)) for x in n[1]]
            dens = [want_u(E(x)) for x in n[2]]
            pn = 1
            for f in nums:
                pn *= f
                if pn >= 2**128:
                    raise Panic("ARITH", "wide overflow")
            pd = 1
            for f in dens:
                pd *= f
                if pd >= 2**128:
                    raise Panic("ARITH", "wide overflow")
            if pd == 0:
                raise Panic("ARITH", "div by zero")
            q = pn // pd
            if q >= 2**64:
                raise Panic("ASSERT", "quotient overflow")
            return q
        if t == "seq":
            v = None
            for x in n[1]:
                v = E(x)
            return v
        if t == "nop":
            return None
        if t == "if":
            c = want_u(E(n[1]))
            if c != 0:
                return E(n[2])
            if n[3] is not None:
                return E(n[3])
            return None
        if t == "cond":
            for arm in n[1]:
                if want_u(E(arm[0])) != 0:
                    return E(arm[1])
            raise Panic("ERR", "no Cond arm matched")
        if t == "while":
            while True:
                if want_u(E(n[1])) == 0:
                    break
                try:
                    E(n[2])
                except _Break:
                    break
                except _Continue:
                    pass
            return None
        if t == "for":
            E(n[1])
            while True:
                if want_u(E(n[2])) == 0:
                    break
                try:
                    E(n[4])
                except _Break:
                    break
                except _Continue:
                    pass
                E(n[3])
            return None
        if t == "break":
            raise _Break()
        if t == "continue":
            raise _Continue()
        if t == "assert":
            for c in n[1]:
                if want_u(E(c)) == 0:
                    raise Panic("ASSERT", "assert failed")
            return None
        if t == "return":
            v = E(n[1]) if n[1] is not None else None
            if fr.routine is None:
                raise _Exit(want_u(v))
            raise _Return(v)
        if t == "approve":
            raise _Exit(1)
        if t == "reject":
            raise _Exit(0)
        if t == "err":
            raise Panic("ERR", "Err()")
        if t == "pop":
            E(n[1])
            return None
        if t == "log":
            W.log(E(n[1]))
            return None
        if t == "store":
            v = E(n[2])
            c = self.cell(n[1], fr)
            if self.abi_bytes(n[1], fr):
                # abi.String.set(expr) prefixes the length: Len(value) panics when the run-time value is not bytes
                want_b(v)
            c.v = v
            c.written = True
            return None
        if t == "gput":
            k = E(n[1])
            v = E(n[2])
            W.app_global_put(k, v)
            return None
        if t == "gdel":
            W.app_global_del(E(n[1]))
            return None
        if t == "gget":
            return W.app_global_get(E(n[1]))
        if t == "lput":
            a = E(n[1])
            k = E(n[2])
            v = E(n[3])
            W.app_local_put(a, k, v)
            return None
        if t == "ldel":
            a = E(n[1])
            k = E(n[2])
            W.app_local_del(a, k)
            return None
        if t == "lget":
            a = E(n[1])
            k = E(n[2])
            return W.app_local_get(a, k)
        if t == "optedin":
            a = E(n[1])
            b = E(n[2])
            return W.app_opted_in(a, b)
        if t == "balance":
            return W.balance(E(n[1]))
        if t == "minbalance":
            return W.min_balance(E(n[1]))
        if t == "maybe":
            args = [E(x) for x in n[2]]
            _, _, op, field = MAYBE[n[1]]
            if op == "app_global_get_ex":
                v, ok = W.app_global_get_ex(*args)
            elif op == "app_local_get_ex":
                v, ok = W.app_local_get_ex(*args)
            elif op == "asset_holding_get":
                v, ok = W.asset_holding_get(field, *args)
            elif op == "asset_params_get":
                v, ok = W.asset_params_get(field, *args)
            elif op == "app_params_get":
                v, ok = W.app_params_get(field, *args)
            elif op == "acct_params_get":
                v, ok = W.acct_params_get(field, *args)
            else:
                raise RecipeError(op)
            how = n[3]
            if how == "has":
                return ok
            if how == "val":
                return v
            ut = typeof(n, None)
            if ok != 0:
                return v
            return 0 if ut == "U" else b""
        if t in ("call", "callN"):
            r = self.routines[n[1]]
            params = {}
            # ABI-typed arguments are materialised (tmp.set(arg)) in a Seq in front of the call expression, so they
            # are evaluated first, in order; then the remaining arguments in order
            for p, a in zip(r["params"], n[2]):
                if p[2] == "abi":
                    params[p[0]] = E(a)
                    if p[1] == "B":
                        want_b(params[p[0]])  # tmp = abi.String(); tmp.set(arg) computes Len(arg)
            for p, a in zip(r["params"], n[2]):
                if isinstance(a, list) and a and a[0] == "ref":
                    params[p[0]] = self.cell(a[1], fr)
                elif p[2] != "abi":
                    params[p[0]] = E(a)
            locs = {name: Cell(name, d.get("slot")) for name, d in r.get("locals", {}).items()}
            if n[1] in self.active:
                self.flags.add("reenter")
            self.active.append(n[1])
            self.depth += 1
            self.max_depth = max(self.max_depth, self.depth)
            try:
                try:
                    v = self.ev(r["body"], Frame(params, locs, n[1]))
                except _Return as e:
                    v = e.v
            finally:
                self.depth -= 1
                self.active.pop()
            if r["ret"] == "N":
                return None
            if r.get("kind") == "abi" and r["ret"] == "B":
                want_b(v)  # output.set(value) of an abi.String output
            return v
        if t == "itxn":
            W.itxn_begin()
            for i, txn in enumerate(n[1]):
                if i:
                    W.itxn_next()
                for f, vexpr in txn:
                    fname = TXN_METHODS[f][0] if f in TXN_METHODS else TXN_ARRAYS[f][0]
                    if vexpr[0] == "arr":
                        for x in vexpr[1]:
                            W.itxn_field(fname, E(x))
                    else:
                        W.itxn_field(fname, E(vexpr))
            W.itxn_submit()
            return None
        if t == "comment":
            if len(n) > 2 and n[2] is not None:
                return E(n[2])
            return None
        if t == "pragma":
            return E(n[2])
        if t == "boxput":
            k = E(n[1])
            v = E(n[2])
            W.box_put(k, v)
            return None
        if t == "boxdel":
            W.box_del(E(n[1]))
            return None
        if t == "dsetidx":
            self.dptr[n[1]] = self.cell(n[2], fr)
            return None
        if t == "dload":
            c = self.dptr.get(n[1])
            if c is None:
                raise Unsupported("DynamicScratchVar read before set_index")
            return c.v
        if t == "dstore":
            v = E(n[2])
            c = self.dptr.get(n[1])
            if c is None:
                raise Unsupported("DynamicScratchVar written before set_index")
            c.v = v
            c.written = True
            return None
        raise RecipeError("cannot evaluate node %r" % (t,))


def evaluate(recipe: dict, ctx: Ctx, budget: int = 100_000) -> EvalResult:
    return Evaluator(recipe, ctx, budget).run()
