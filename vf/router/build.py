"""Router configurations as plain data -> PyTeal Router objects (handlers log a unique tag), and the dispatch model."""
# NOTE: no `from __future__ import annotations` (handler annotations must be real objects)
from typing import Any, Dict, List, Optional

from ..abi import shapes as S

OCS = ["no_op", "opt_in", "close_out", "update_application", "delete_application"]
OC_NUM = {"no_op": 0, "opt_in": 1, "close_out": 2, "update_application": 4, "delete_application": 5}
CC = {"NEVER": 0, "CALL": 1, "CREATE": 2, "ALL": 3}


def tag(name: str) -> bytes:
    return ("TAG:" + name).encode()


def method_signature(m) -> str:
    return "%s(%s)%s" % (m["name"], ",".join(S.sdk_str(a) for a in m["args"]), S.sdk_str(m["ret"]) if m.get("ret") else "void")


def selector(sig: str) -> bytes:
    import hashlib

    return hashlib.new("sha512_256", sig.encode()).digest()[:4]


def make_handler(pt, m):
    """ABIReturnSubroutine that logs its tag (and sets a constant output)"""
    params = []
    g = {"pt": pt, "Expr": pt.Expr, "abi": pt.abi}
    for i, a in enumerate(m["args"]):
        g["T%d" % i] = S.pt_spec(pt, a).annotation_type()
        params.append("a%d: T%d" % (i, i))
    body = "pt.Log(pt.Bytes(TAG))"
    g["TAG"] = tag(m["name"])
    if m.get("ret"):
        g["TR"] = S.pt_spec(pt, m["ret"]).annotation_type()
        params.append("*")
        params.append("output: TR")
        body = "pt.Seq(pt.Log(pt.Bytes(TAG)), output.set(%s))" % ("pt.Int(7)" if m["ret"][0] in ("uint", "byte") else "True" if m["ret"][0] == "bool" else "pt.Bytes(b'ok')")
    fname = m.get("fname", m["name"])
    src = "def %s(%s) -> Expr:\n    return %s\n" % (fname, ", ".join(params), body)
    exec(compile(src, "<router-handler>", "exec", dont_inherit=True), g)
    return pt.ABIReturnSubroutine(g[fname])


def make_action(pt, kind: str, name: str):
    """bare-call / clear-state action of the given kind logging its tag"""
    t = tag(name)
    if kind == "expr":
        return pt.Log(pt.Bytes(t))
    if kind == "expr-approve":
        return pt.Seq(pt.Log(pt.Bytes(t)), pt.Approve())
    if kind == "sub":
        g = {"pt": pt, "Expr": pt.Expr, "TAG": t}
        # the subroutine owns a scratch slot and a MaybeValue temporary (declaration caching / slot numbering matter)
        src = ("def bare_%s() -> Expr:\n    v = pt.ScratchVar(pt.TealType.uint64)\n    mv = pt.App.globalGetEx(pt.Int(0), pt.Bytes(b'k'))\n"
               "    return pt.Seq(v.store(pt.Len(pt.Bytes(TAG))), mv, pt.Pop(mv.hasValue()), pt.Pop(v.load()), pt.Log(pt.Bytes(TAG)))\n") % name
        exec(compile(src, "<router-handler>", "exec", dont_inherit=True), g)
        return pt.Subroutine(pt.TealType.none)(g["bare_%s" % name])
    g = {"pt": pt, "Expr": pt.Expr, "TAG": t}
    exec(compile("def bare_%s() -> Expr:\n    return pt.Log(pt.Bytes(TAG))\n" % name, "<router-handler>", "exec", dont_inherit=True), g)
    return pt.ABIReturnSubroutine(g["bare_%s" % name])


def method_config(pt, cfg: Dict[str, str]):
    return pt.MethodConfig(**{oc: getattr(pt.CallConfig, cfg.get(oc, "NEVER")) for oc in OCS})


def build_router(pt, rc: dict):
    """-> Router. Raises whatever PyTeal raises at registration."""
    bare_kw = {}
    for oc, b in rc.get("bare", {}).items():
        bare_kw[oc] = pt.OnCompleteAction(action=make_action(pt, b["kind"], "bare_" + oc), call_config=getattr(pt.CallConfig, b["cfg"]))
    clear = make_action(pt, rc["clear"], "clear") if rc.get("clear") else None
    router = pt.Router("r", pt.BareCallActions(**bare_kw) if bare_kw else None, clear_state=clear)
    for m in rc.get("methods", []):
        h = make_handler(pt, m)
        if m.get("via") == "decorator":
            kw = {oc: getattr(pt.CallConfig, v) for oc, v in m["config"].items()}
            # the decorator takes the plain python function
            router.method(h.subroutine.implementation if False else _plain_fn(pt, m), name=m.get("override"), **kw)
        else:
            if m.get("presig"):
                # a pure inspection of the handler before it is registered under another name
                h.method_signature()
                h.name()
            router.add_method_handler(h, overriding_name=m.get("override"), method_config=method_config(pt, m["config"]) if m.get("config") is not None else None)
            if m.get("alias"):
                # the same handler object registered once more under a second name
                router.add_method_handler(h, overriding_name=m["alias"], method_config=method_config(pt, m["config"]) if m.get("config") is not None else None)
    return router


def _plain_fn(pt, m):
    params = []
    g = {"pt": pt, "Expr": pt.Expr, "abi": pt.abi, "TAG": tag(m["name"])}
    for i, a in enumerate(m["args"]):
        g["T%d" % i] = S.pt_spec(pt, a).annotation_type()
        params.append("a%d: T%d" % (i, i))
    body = "pt.Log(pt.Bytes(TAG))"
    if m.get("ret"):
        g["TR"] = S.pt_spec(pt, m["ret"]).annotation_type()
        params.append("*")
        params.append("output: TR")
        body = "pt.Seq(pt.Log(pt.Bytes(TAG)), output.set(%s))" % ("pt.Int(7)" if m["ret"][0] in ("uint", "byte") else "True" if m["ret"][0] == "bool" else "pt.Bytes(b'ok')")
    fname = m.get("fname", m["name"])
    src = "def %s(%s) -> Expr:\n    return %s\n" % (fname, ", ".join(params), body)
    exec(compile(src, "<router-handler>", "exec", dont_inherit=True), g)
    return g[fname]


# --------------------------------------------------------------------------- dispatch model (from the property statement)


def allows(cc: str, create: bool) -> bool:
    v = CC[cc]
    return bool(v & (2 if create else 1))


def effective_name(m) -> str:
    return m.get("override") or m.get("fname") or m["name"]


def registered_signature(m) -> str:
    mm = dict(m, name=effective_name(m))
    return method_signature(mm)


def expected_handler(rc: dict, args: List[bytes], oc: int, create: bool) -> Optional[str]:
    """tag name of the handler that must run, or None (= the call must be rejected)"""
    ocname = {v: k for k, v in OC_NUM.items()}.get(oc)
    if ocname is None:
        return None
    if len(args) == 0:
        b = rc.get("bare", {}).get(ocname)
        if b and allows(b["cfg"], create):
            return "bare_" + ocname
        return None
    for m in rc.get("methods", []):
        sels = [selector(registered_signature(m))]
        if m.get("alias") and m.get("via") != "decorator":
            sels.append(selector(method_signature(dict(m, name=m["alias"]))))
        if args[0] in sels:
            cfg = m["config"] if m.get("config") is not None else {"no_op": "CALL"}
            if allows(cfg.get(ocname, "NEVER"), create):
                return m["name"]
            return None
    return None
