"""Shared differential machinery: build+compile a recipe under a configuration, execute, compare with the evaluator."""
from __future__ import annotations

from typing import Any, Dict, List, Optional, Tuple

from .avm.context import Ctx
from .avm.interp import BudgetExceeded, Result, run_prog
from .avm.prims import Unsupported
from .recipe.build import Builder
from .recipe.eval import evaluate
from .recipe.nodes import RecipeError
from .teal import parser as tp

PYTEAL_ERRORS = None


def pyteal_errors():
    global PYTEAL_ERRORS
    if PYTEAL_ERRORS is None:
        import pyteal as pt

        PYTEAL_ERRORS = (pt.TealInputError, pt.TealCompileError, pt.TealTypeError, pt.TealInternalError, pt.TealPragmaError)
    return PYTEAL_ERRORS


def reset_pyteal_state():
    """Reset the class-level frame-pointer marker so a case reproduces from its input alone. Returns True if it was set."""
    from pyteal.ast.subroutine import SubroutineEval

    was = getattr(SubroutineEval, "_current_proto", None) is not None
    SubroutineEval._current_proto = None
    return was


def mode_of(recipe):
    import pyteal as pt

    return pt.Mode.Application if recipe.get("mode", "app") == "app" else pt.Mode.Signature


def optimize_of(cfg: dict):
    import pyteal as pt

    ss = cfg.get("scratch_slots")
    fp = cfg.get("frame_pointers")
    if ss is None and fp is None:
        return None
    kw = {}
    if ss is not None:
        kw["scratch_slots"] = ss
    if fp is not None:
        kw["frame_pointers"] = fp
    return pt.OptimizeOptions(**kw)


class CompileOutcome:
    def __init__(self, teal=None, error=None, crash=None):
        self.teal = teal
        self.error = error  # PyTeal error instance
        self.crash = crash  # other exception


def compile_recipe(recipe: dict, cfg: dict, builder_kw=None, optimize_obj=None) -> CompileOutcome:
    """cfg: {"version": int, "scratch_slots": bool|None, "frame_pointers": bool|None, "assemble": bool}
    optimize_obj: an OptimizeOptions instance to use instead of a fresh one (for re-use across programs)"""
    import pyteal as pt

    reset_pyteal_state()
    try:
        ast = Builder(recipe, pt, **(builder_kw or {})).build()
        teal = pt.compileTeal(
            ast,
            mode_of(recipe),
            version=cfg["version"],
            assembleConstants=bool(cfg.get("assemble", False)),
            optimize=optimize_obj if optimize_obj is not None else optimize_of(cfg),
        )
        return CompileOutcome(teal=teal)
    except pyteal_errors() as e:
        return CompileOutcome(error=e)
    except RecipeError:
        raise
    except Exception as e:  # noqa
        return CompileOutcome(crash=e)
    finally:
        reset_pyteal_state()


def describe_result(r) -> str:
    if r.verdict == "fail":
        return "fail(%s: %s)" % (r.panic, r.panic_msg)
    ev = []
    for e in r.events:
        ev.append("(" + ", ".join(x.hex() if isinstance(x, (bytes, bytearray)) else str(x) for x in e) + ")")
    return "%s value=%s events=[%s]" % (r.verdict, r.value, " ".join(ev)[:600])


def compare(er, ir: Result, explicit_slots: Optional[Dict[int, Any]] = None) -> Optional[Tuple[str, str]]:
    """er: EvalResult, ir: interpreter Result. Returns (kind, detail) or None."""
    if er.verdict == "fail" or ir.verdict == "fail":
        if er.verdict != ir.verdict:
            kind = "expected-fail" if er.verdict == "fail" else "unexpected-fail:%s" % ir.panic
            return kind, "source semantics: %s | compiled TEAL: %s (line %d)" % (describe_result(er), describe_result(ir), ir.panic_line + 1)
        return None
    if er.verdict != ir.verdict or er.value != ir.value:
        return "value", "source semantics: %s | compiled TEAL: %s" % (describe_result(er), describe_result(ir))
    if tuple(er.events) != tuple(ir.events):
        a, b = list(er.events), list(ir.events)
        i = 0
        while i < min(len(a), len(b)) and a[i] == b[i]:
            i += 1
        kind = "effects:%s" % ((a[i][0] if i < len(a) else b[i][0]))
        return kind, "effect #%d differs. source semantics: %s | compiled TEAL: %s" % (i, describe_result(er), describe_result(ir))
    if explicit_slots is not None:
        for s, v in er.slots.items():
            if ir.scratch.get(s, 0) != v:
                return "slot", "explicitly numbered slot %d holds %r after the run, source semantics say %r" % (s, ir.scratch.get(s, 0), v)
    return None


def ctx_list(case) -> List[Ctx]:
    return [Ctx.from_json(c) for c in case["ctxs"]]


def short_teal(teal: str, n=40) -> str:
    lines = teal.split("\n")
    return "\n".join(lines[:n] + (["... (%d more lines)" % (len(lines) - n)] if len(lines) > n else []))


# --------------------------------------------------------------------------- multi-configuration runs (C02 / C03)


def cfg_key(cfg: dict) -> str:
    return "v%d/ss=%s/fp=%s%s%s" % (cfg["version"], cfg.get("scratch_slots"), cfg.get("frame_pointers"), "/asm" if cfg.get("assemble") else "", "/reused-options" if cfg.get("reuse_options") else "")


def boundary_violations(trace, sigs) -> List[str]:
    """Call-boundary invariant on an interpreter trace: at every retsub the data stack equals the snapshot taken at the
    matching callsub with the callee's `nargs` arguments removed and exactly `nrets` values appended.
    sigs: label -> (nargs, nrets)."""
    out = []
    for ev in trace:
        if ev[0] != "retsub":
            continue
        _k, label, snap, after, _clear, _a, _r = ev
        sg = sigs.get(label)
        if sg is None or snap is None:
            continue
        nargs, nrets = sg
        if len(snap) < nargs:
            out.append("%s: called with %d values on the stack, takes %d argument(s)" % (label, len(snap), nargs))
            continue
        keep = snap[: len(snap) - nargs]
        if len(after) != len(keep) + nrets:
            out.append("%s: stack height after return is %d, expected %d (caller held %d, %d result(s))" % (label, len(after), len(keep) + nrets, len(keep), nrets))
        elif tuple(after[: len(keep)]) != tuple(keep):
            out.append("%s: values the caller held below the call were changed: before=%r after=%r" % (label, _short(keep), _short(after[: len(keep)])))
    return out


def _short(vals):
    return [v.hex() if isinstance(v, (bytes, bytearray)) else v for v in list(vals)[-6:]]


def label_sigs(recipe: dict, prog) -> Dict[str, Tuple[int, int]]:
    out = {}
    byname = {r["name"]: (len(r["params"]), 0 if r["ret"] == "N" else 1) for r in recipe.get("routines", [])}
    for lab in prog.labels:
        base = lab.rsplit("_", 1)[0]
        if base in byname and lab[len(base) + 1 :].isdigit():
            out[lab] = byname[base]
    return out


UNASSEMBLABLE_KINDS = ("syntax", "imm-range", "label", "const-index", "cfg-fall-off-end", "cfg-fall-into-routine")


def unassemblable(teal: str, version: int, mode: str = "app"):
    """first issue of the C04 predicate that makes the text unusable whatever it was meant to compute (bad immediate,
    undefined label, constant index outside its block, control running off the end / into another routine), or None.
    Used by the behavioural properties (C01-C03): a program that cannot be assembled does not "compute what the source
    denotes".  Version/field-availability kinds are left to C04 (its known findings F9/F17-F19 live there)."""
    from .teal import static

    sure, _unsure, _prog = static.check_program(teal, version, mode)
    for i in sure:
        if i.kind in UNASSEMBLABLE_KINDS:
            return i
    return None


def static_issue(teal: str, version: int, mode: str = "app"):
    """first judging issue of the C04 validity predicate on an emitted text, or None (used by the ABI/router
    properties so that text the assembler cannot accept is never counted as a correct answer)"""
    from .teal import static

    sure, _unsure, _prog = static.check_program(teal, version, mode)
    return sure[0] if sure else None
