"""C11 - compilation is deterministic and independent of process history (fresh-process histories + in-process machine)."""
# NOTE: no `from __future__ import annotations`
import hashlib
import json
import os
import subprocess
import sys

from hypothesis import strategies as st
from hypothesis.stateful import RuleBasedStateMachine, initialize, invariant, rule

from .. import diff, env
from ..recipe import gen, gen_sub, legal
from ..runner import Collector, hyp_run, hyp_state_machine, sha
from . import c08

ID = "C11"
LEVEL = "exploration"
RULE = (
    "(i) Process level: a history = 0..6 actions (build / pure type_of+has_return query / compile / failing compile of "
    "unrelated programs - generated recipes with subroutines, ABI values and routers, hand-written programs (inner method calls with transaction arguments and many fields; Break/Continue outside a loop, whose only correct outcome is an error), and nine failing builders (incl. a failure met while a loop body is lowered): type "
    "error inside a frame-pointer subroutine body, version too low inside a subroutine, load before store, too many slots, "
    "by-ref recursion, Cond without arms, none-typed main - / Router.compile_program 1..3 times) followed by compiling the "
    "target twice on the same object; every history runs in a FRESH interpreter (subprocess) under PYTHONHASHSEED in "
    "{0, 1, 4242}. Oracle: the target's TEAL equals the TEAL produced by a pristine process that only compiled the target "
    "(hash seed 0), both times. (ii) In-process: a Hypothesis RuleBasedStateMachine with the same actions as rules; "
    "invariant: every compilation of (item, configuration) yields the text it yielded the first time in this process, "
    "and repeated Router.compile_program on one router yields equal (approval, clear). (iii) One object, several "
    "compilations: a generated program (subroutines, ABI values, commented Asserts, by-ref params) is built ONCE and "
    "compiled under 2..5 configurations in turn (versions across the frame-pointer boundary, scratch_slots, "
    "frame_pointers, assembleConstants; the first configuration again at the end); every result equals the compilation "
    "of a freshly built copy under that configuration. non-trivial = the history contains "
    "a failing compilation, a frame-pointer compilation or a router before a target that uses ABI values or subroutines, "
    "or runs under a hash seed != 0; a sequence (iii) with >=2 distinct versions or >=3 compilations; distinct by (history, target, seed)."
)
ASSUMPTIONS = ["subprocess interpreters are fresh (no shared state); the worker script vf/c11_worker.py drives pyteal only through public calls"]
SHARDS = {"quick": 16, "thorough": 16}
N_EX = {"quick": 14, "thorough": 300}
MIN_NONTRIVIAL = {"quick": 40, "thorough": 1500}
BAD = ["type-error-in-fp-subroutine", "load-before-store", "too-many-slots", "byref-recursion", "cond-without-arms", "abi-in-fp-subroutine-then-version-error", "none-typed-main",
       "fail-inside-while-body", "fail-inside-for-body"]
# hand-written programs (vf/c11_worker.py lib_program): targets whose only correct outcome is a PyTeal error, and API areas
# whose emission iterates over dictionaries / sets of fields
LIB_ERR = ["break-outside-loop", "continue-outside-loop", "break-in-subroutine-outside-loop"]
LIB_OK = ["methodcall-pay-arg", "methodcall-two-txn-args", "execute-many-fields"]
WORKER = os.path.join(env.VERIF_DIR, "vf", "c11_worker.py")

_PRISTINE = {}


def run_worker(job, hashseed):
    e = dict(os.environ, PYTHONHASHSEED=str(hashseed), PYTHONDONTWRITEBYTECODE="1")
    p = subprocess.run([sys.executable, WORKER], input=json.dumps(job), capture_output=True, text=True, env=e, timeout=600)
    if p.returncode != 0:
        raise RuntimeError("c11 worker failed: %s" % p.stderr[-1500:])
    return json.loads(p.stdout)


def pristine(target):
    k = hashlib.sha1(json.dumps(target, sort_keys=True).encode()).hexdigest()
    if k not in _PRISTINE:
        _PRISTINE[k] = run_worker({"actions": [], "target": target, "repeat": 1}, 0)["target"][0]
    return _PRISTINE[k]


def first_diff(a, b):
    la, lb = a.split("\n"), b.split("\n")
    for i in range(min(len(la), len(lb))):
        if la[i] != lb[i]:
            return "line %d: pristine %r vs %r" % (i + 1, la[i], lb[i])
    return "lengths %d vs %d lines" % (len(la), len(lb))


def run_case(case, col=None):
    out = []
    want = pristine(case["target"])
    if want.startswith("ERROR") and case["target"]["item"]["k"] != "lib":
        if col:
            col.cls("discard:target-does-not-compile")
        return out
    if case["target"]["item"].get("which") in LIB_ERR and not want.startswith("ERROR"):
        out.append(("must-be-refused", "the program %s compiled in a pristine process" % case["target"]["item"]["which"]))
        return out
    res = run_worker({"actions": case["actions"], "target": case["target"], "repeat": 2}, case["hashseed"])
    if col:
        for l in res["log"]:
            col.cls("history-action:" + (l if l.startswith("ERROR") or l in ("built", "queried", "begun") else "compiled"))
    for i, got in enumerate(res["target"]):
        if got != want:
            kinds = [a["a"] + (":" + a["item"].get("which", a["item"]["k"])) for a in case["actions"]]
            out.append(("history-dependent" if i == 0 and case["actions"] else ("hashseed-dependent" if not case["actions"] and i == 0 else "recompile-differs"),
                        "target compiled as #%d after history %s under PYTHONHASHSEED=%s differs from the pristine compilation: %s" % (i + 1, kinds, case["hashseed"], first_diff(want, got))))
            break
    return out


def judge(case):
    if "seq_recipe" in case:
        return run_sequence(case)
    return run_case(case)


def shrinks(case):
    if "seq_recipe" in case:
        from ..shrink import case_shrinks

        cf = case["cfgs"]
        for i in range(len(cf)):
            if len(cf) > 1:
                yield dict(case, cfgs=cf[:i] + cf[i + 1:])
        for c in case_shrinks({"recipe": case["seq_recipe"], "configs": []}):
            yield dict(case, seq_recipe=c["recipe"])
        return
    acts = case["actions"]
    for i in range(len(acts)):
        yield dict(case, actions=acts[:i] + acts[i + 1:])
    if case["hashseed"] != 0:
        yield dict(case, hashseed=0)


@st.composite
def item_strategy(draw, allow_bad=True, small=False):
    k = draw(st.integers(0, 9))
    if k <= 3:
        r = draw(gen_sub.sub_recipe(max_budget=12 if small else 30))
        return {"k": "recipe", "recipe": r}
    if k <= 4:
        r = draw(gen.core_recipe(max_budget=10 if small else 20, opts={"abi_vars": 3}))
        return {"k": "recipe", "recipe": r}
    if k <= 6:
        return {"k": "router", "rc": draw(c08.router_strategy(allow_bad=False))}
    if allow_bad:
        return {"k": "bad", "which": draw(st.sampled_from(BAD))}
    return {"k": "router", "rc": draw(c08.router_strategy(allow_bad=False))}


def cfg_for(draw, item):
    if item["k"] == "recipe":
        lo = legal.min_version(item["recipe"])
    elif item["k"] == "router":
        lo = 6
    else:
        lo = 6
    v = draw(st.sampled_from([x for x in (lo, 6, 7, 8, 8, 9, 10) if x >= lo]))
    cfg = {"version": v}
    if draw(st.integers(0, 3)) == 0:
        cfg["scratch_slots"] = draw(st.booleans())
    if v >= 8 and draw(st.integers(0, 4)) == 0:
        cfg["frame_pointers"] = False
    return cfg


@st.composite
def target_strategy(draw):
    it = draw(item_strategy(allow_bad=False, small=True))
    return {"item": it, "cfg": cfg_for(draw, it)}


def lib_targets(k):
    """the hand-written targets, spread over the shards"""
    names = LIB_ERR + LIB_OK
    out = []
    for j, nm in enumerate(names):
        if j % 4 == k % 4:
            out.append({"item": {"k": "lib", "which": nm}, "cfg": {"version": [6, 8, 10][(j + k) % 3]}})
    return out


@st.composite
def case_strategy(draw, tier, targets):
    # targets come from a per-shard pool (their pristine compilation is computed once); a small pool of other items is
    # drawn first and actions refer to pool members by index, so that Hypothesis' per-example size limit does not
    # silently favour empty histories
    target = targets[draw(st.integers(0, len(targets) - 1))]
    pool = [target["item"]]
    for _ in range(draw(st.integers(1, 3))):
        pool.append(draw(item_strategy(small=True)))
    acts = []
    if target["item"]["k"] == "recipe":
        w0 = draw(st.integers(0, 5))
        if w0 == 0:
            # the target's variables and subroutine wrappers are created first, its body after the history
            acts.append({"a": "begin", "item": target["item"], "key": "target"})
        elif w0 == 1:
            # pure queries (type_of / has_return on the expression and on its subroutine wrappers) before compiling
            acts.append({"a": "query", "item": target["item"], "key": "target"})
    for _ in range(draw(st.sampled_from([0, 1, 2, 2, 3, 4, 6]))):
        w = draw(st.integers(0, 9))
        it = {"k": "bad", "which": draw(st.sampled_from(BAD))} if w <= 2 else pool[draw(st.integers(1, len(pool) - 1))]
        a = draw(st.sampled_from(["compile", "compile", "compile", "build", "query"]))
        act = {"a": a, "item": it}
        if a == "compile":
            act["cfg"] = cfg_for(draw, it)
        acts.append(act)
        if it["k"] == "router" and a == "compile" and draw(st.booleans()):
            # compile the same router object again
            acts.append(dict(act, key="h%d" % (len(acts) - 1)))
    return {"target": target, "actions": acts, "hashseed": draw(st.sampled_from([0, 0, 1, 4242]))}


# ---------------------------------------------------------------- one object, several compilations (in process)


def _compile_obj(pt, obj, recipe, cfg):
    try:
        return pt.compileTeal(obj, diff.mode_of(recipe), version=cfg["version"], assembleConstants=bool(cfg.get("assemble")), optimize=diff.optimize_of(cfg))
    except diff.pyteal_errors() as e:
        return "ERROR:%s" % type(e).__name__
    except RecursionError:
        return "ERROR:RecursionError"


def run_sequence(case, col=None):
    """the SAME expression object compiled under cfgs[0], cfgs[1], ... in turn; each result must equal the compilation
    of a freshly built copy of the program under that configuration"""
    import pyteal as pt
    from ..recipe.build import Builder

    recipe = case["seq_recipe"]
    out = []
    diff.reset_pyteal_state()
    try:
        want = []
        for cfg in case["cfgs"]:
            want.append(_compile_obj(pt, Builder(recipe, pt).build(), recipe, cfg))
        if all(w.startswith("ERROR") for w in want):
            if col:
                col.cls("discard:sequence-never-compiles")
            return out
        obj = Builder(recipe, pt).build()
        for i, cfg in enumerate(case["cfgs"]):
            got = _compile_obj(pt, obj, recipe, cfg)
            if got != want[i]:
                out.append(("same-object-sequence", "compilation #%d of one expression object under %s, after compiling it under %s, differs from compiling a freshly built copy: %s" % (
                    i + 1, cfg, case["cfgs"][:i], first_diff(want[i], got) if not (got.startswith("ERROR") or want[i].startswith("ERROR")) else "%s vs %s" % (want[i][:40], got[:40]))))
                break
    finally:
        diff.reset_pyteal_state()
    return out


@st.composite
def sequence_strategy(draw):
    k = draw(st.integers(0, 3))
    if k == 0:
        r = draw(gen.core_recipe(max_budget=25, opts={"abi_vars": 3}))
    else:
        r = draw(gen_sub.sub_recipe(max_budget=35))
    lo = legal.min_version(r)
    n = draw(st.integers(2, 4))
    cfgs = []
    for i in range(n):
        v = draw(st.sampled_from([x for x in (lo, 5, 6, 7, 8, 8, 9, 10) if x >= lo]))
        cfg = {"version": v}
        if draw(st.integers(0, 3)) == 0:
            cfg["scratch_slots"] = draw(st.booleans())
        if v >= 8 and draw(st.integers(0, 3)) == 0:
            cfg["frame_pointers"] = False
        if draw(st.integers(0, 5)) == 0:
            cfg["assemble"] = True
        cfgs.append(cfg)
    if draw(st.booleans()):
        cfgs.append(dict(cfgs[0]))
    return {"seq_recipe": r, "cfgs": cfgs}


class CompileMachine(RuleBasedStateMachine):
    """in-process histories: every (item, cfg) must always compile to the text it compiled to first"""

    col = None
    failures = None

    def __init__(self):
        super().__init__()
        import pyteal as pt
        from ..recipe.build import Builder
        from ..router import build as RB

        self.pt, self.Builder, self.RB = pt, Builder, RB
        self.first = {}
        self.routers = {}
        self.history = []

    def _compile(self, item, cfg, key=None):
        pt = self.pt
        try:
            opt = diff.optimize_of(cfg)
            if item["k"] == "router":
                r = self.routers.get(key) if key else None
                if r is None:
                    r = self.RB.build_router(pt, item["rc"])
                    if key:
                        self.routers[key] = r
                a, c, _ = r.compile_program(version=cfg["version"], optimize=opt)
                return a + "\n=====CLEAR=====\n" + c
            e = self.Builder(item["recipe"], pt).build()
            return pt.compileTeal(e, diff.mode_of(item["recipe"]), version=cfg["version"], optimize=opt)
        except diff.pyteal_errors() as e:
            return "ERROR:%s" % type(e).__name__
        except RecursionError:
            return "ERROR:RecursionError"

    @rule(data=st.data())
    def compile_item(self, data):
        item = data.draw(item_strategy(allow_bad=False, small=True))
        cfg = cfg_for(data.draw, item)
        self._step(item, cfg)

    @rule(data=st.data(), which=st.sampled_from(["type-error-in-fp-subroutine", "abi-in-fp-subroutine-then-version-error", "load-before-store"]))
    def failing_compile(self, data, which):
        pt = self.pt
        v = data.draw(st.sampled_from([6, 8, 10]))
        try:
            if which == "type-error-in-fp-subroutine":
                @pt.Subroutine(pt.TealType.uint64)
                def boom(x):
                    a = pt.abi.Uint64()
                    return pt.Seq(a.set(x), pt.Bytes("a") + pt.Int(1))

                pt.compileTeal(boom(pt.Int(1)), pt.Mode.Application, version=v)
            elif which == "load-before-store":
                s = pt.ScratchVar(pt.TealType.uint64)
                pt.compileTeal(pt.Seq(pt.If(pt.Txn.fee()).Then(s.store(pt.Int(1))), s.load()), pt.Mode.Application, version=v)
            else:
                @pt.Subroutine(pt.TealType.uint64)
                def f(x):
                    a = pt.abi.String()
                    return pt.Seq(a.set(pt.Bytes("x")), pt.Len(pt.JsonRef.as_string(a.get(), pt.Bytes("k"))) + x)

                pt.compileTeal(f(pt.Int(1)), pt.Mode.Application, version=6)
        except diff.pyteal_errors():
            pass
        self.history.append("fail:" + which)

    @rule()
    def replay_known(self):
        # re-compile every (item, cfg) seen so far: must equal its first text
        for k, (item, cfg, text) in list(self.first.items())[:4]:
            got = self._compile(item, cfg)
            if got != text:
                self._fail("in-process:recompile-differs", "item %s cfg %s compiled differently after history %s: %s" % (item["k"], cfg, self.history[-8:], first_diff(text, got)), item, cfg)

    def _step(self, item, cfg):
        k = sha([item, cfg])
        got = self._compile(item, cfg)
        self.history.append(item["k"])
        CompileMachine.col.case()
        if k in self.first:
            if got != self.first[k][2]:
                self._fail("in-process:recompile-differs", "item %s cfg %s compiled differently after history %s: %s" % (item["k"], cfg, self.history[-8:], first_diff(self.first[k][2], got)), item, cfg)
        else:
            self.first[k] = (item, cfg, got)
        if item["k"] == "router" and not got.startswith("ERROR"):
            # repeated compile_program on ONE router object
            key = "r" + k
            a = self._compile(item, cfg, key)
            b = self._compile(item, cfg, key)
            if a != b:
                self._fail("in-process:router-recompile-differs", "Router.compile_program twice on one router differs: %s" % first_diff(a, b), item, cfg)

    def _fail(self, bucket, detail, item, cfg):
        # recorded as a process-level case: pristine vs after a failing compile, so that it is replayable
        case = {"target": {"item": item, "cfg": cfg}, "actions": [{"a": "compile", "item": {"k": "bad", "which": "type-error-in-fp-subroutine"}, "cfg": {"version": 8}}], "hashseed": 0, "in_process_detail": detail[:500]}
        CompileMachine.col.fail(bucket, detail, case)


def shard(tier, seedv, k, n, col: Collector):
    def body(case):
        col.case()
        res = run_case(case, col)
        acts = case["actions"]
        nt = case["hashseed"] != 0 or any(a["item"]["k"] in ("bad", "router") for a in acts) or any(a.get("cfg", {}).get("version", 0) >= 8 for a in acts)
        if nt:
            col.nontriv(sha(case))
        col.cls("hashseed:%s" % case["hashseed"])
        col.cls("history-length:%d" % len(acts))
        for b, d in res:
            col.fail(b, d, case)
        if not res and len(col.samples) < 2 and len(acts) >= 2:
            col.sample({"history": [a["a"] + ":" + a["item"].get("which", a["item"]["k"]) for a in acts], "target": case["target"]["item"]["k"], "cfg": case["target"]["cfg"], "hashseed": case["hashseed"]})

    # enumerated: every failing builder immediately before every hand-written target (fresh process each)
    gi = 0
    for bad in BAD:
        for nm in LIB_ERR + LIB_OK:
            for v in (6, 8):
                gi += 1
                if gi % n != k:
                    continue
                case = {"target": {"item": {"k": "lib", "which": nm}, "cfg": {"version": v}}, "hashseed": [0, 1, 4242][gi % 3],
                        "actions": [{"a": "compile", "item": {"k": "bad", "which": bad}, "cfg": {"version": 8 if gi % 2 else 6}}]}
                body(case)
    targets = []
    hyp_run(lambda t: targets.append(t), target_strategy(), 3 if tier == "quick" else 12, env.derive(seedv, "targets"))
    col.classes.pop("hypothesis-duplicate", None)
    targets += lib_targets(k)
    hyp_run(body, case_strategy(tier, targets), N_EX[tier], seedv, key=lambda c: c, col=col)
    # one object, several compilations under different options

    def sbody(case):
        col.case()
        res = run_sequence(case, col)
        vs = [c["version"] for c in case["cfgs"]]
        fp = [c["version"] >= 8 and c.get("frame_pointers", True) for c in case["cfgs"]]
        col.cls("same-object-sequence")
        if len(set(fp)) == 2:
            col.cls("same-object-sequence:crosses frame-pointer boundary")
            if case["seq_recipe"].get("routines"):
                col.nontriv(sha(case))
        elif len(set(vs)) >= 2 or len(vs) >= 3:
            col.nontriv(sha(case))
        for b, d in res:
            col.fail(b, d, case)

    hyp_run(sbody, sequence_strategy(), 45 if tier == "quick" else 800, env.derive(seedv, "sequence"), key=lambda c: c, col=col)
    # in-process machine
    CompileMachine.col = col
    try:
        hyp_state_machine(CompileMachine, max_examples=3 if tier == "quick" else 60, steps=6 if tier == "quick" else 14, seedv=env.derive(seedv, "machine"))
    finally:
        diff.reset_pyteal_state()
