"""C04 - successful compilation yields complete, target-legal TEAL (validity predicate over the emitted text)."""
from __future__ import annotations

from hypothesis import strategies as st

from .. import diff, progs
from ..recipe import nodes as N
from ..runner import Collector, hyp_run, sha
from ..shrink import case_shrinks
from ..teal import static
from . import c20

ID = "C04"
LEVEL = "exploration"
RULE = (
    "(a) exhaustive constructor sweep: every public transaction/global/param/box/block/crypto/operator/control/inner-txn "
    "constructor (enumerated by introspection of the pyteal namespace, incl. boundary immediates 255/256/300, group index "
    "15/16, slot 255, Arg 255/256) x versions 2..10 x both modes x assembleConstants off/on; (b) Hypothesis-generated "
    "programs from the core, subroutine and degenerate-shape grammars under random version/option configurations. "
    "Oracle: independent TEAL parser + hand-written langspec + CFG: first line is the pragma, every line parses, every "
    "op/field/immediate is legal at the version and mode, labels defined once and resolved, constant-block indices "
    "resolve, every path ends in return/retsub/err without running off the end or into another routine, no retsub "
    "reachable from main, no backward branch below v4. non-trivial = distinct (snippet, version, mode) cells that compiled, "
    "plus distinct generated programs with >=1 label that compiled."
)
ASSUMPTIONS = [
    "vf/teal/langspec.py is a faithful model of what the AVM assembler accepts (cross-checked: all 185 golden .teal files of the repository validate; only `sure` entries judge)",
    "field-level mode restrictions and per-version itxn_field settable sets are treated as unsure (never judging)",
]
SHARDS = {"quick": 16, "thorough": 16}
N_EX = {"quick": 60, "thorough": 2500}
MIN_NONTRIVIAL = {"quick": 1000, "thorough": 3000}
VERSIONS = list(range(2, 11))


def judge_snippet(case, col=None):
    name, v, mode = case["snippet"], case["version"], case["mode"]
    kind, val = progs.compile_snippet(name, v, mode, assemble=bool(case.get("assemble")))
    if kind == "rejected":
        if col:
            col.cls("sweep:rejected")
        return []
    if kind == "crash":
        if col:
            col.cls("sweep:crash(C20's business)")
        return []
    if col:
        col.cls("sweep:compiled")
        col.nontriv(sha(["snippet", name, v, mode]))
    sure, unsure, _prog = static.check_program(val, v, mode)
    if col:
        for u in unsure:
            col.cls("unsure:" + u.kind)
    out = []
    for i in sure:
        out.append(("static:%s" % i.kind, "snippet %s v%d %s%s: %s\n--- TEAL ---\n%s" % (name, v, mode, " assembleConstants" if case.get("assemble") else "", i, diff.short_teal(val, 30))))
    return out


def judge_recipe(case, col=None):
    recipe = case["recipe"]
    mode = recipe.get("mode", "app")
    out = []
    for cfg in case["configs"]:
        oc = diff.compile_recipe(recipe, cfg)
        if oc.teal is None:
            if col:
                col.cls("gen:rejected" if oc.error is not None else "gen:crash(C20's business)")
            continue
        if col:
            col.cls("gen:compiled")
        sure, unsure, prog = static.check_program(oc.teal, cfg["version"], mode)
        if col and prog is not None and prog.labels:
            col.nontriv(sha(["prog", oc.teal]))
        for i in sure:
            out.append(("static:%s" % i.kind, "cfg=%s: %s\n--- TEAL ---\n%s" % (cfg, i, diff.short_teal(oc.teal, 50))))
        if out:
            break
    return out


def judge(case):
    if "snippet" in case:
        return judge_snippet(case)
    return judge_recipe(case)


def shrinks(case):
    if "snippet" in case:
        return []
    return case_shrinks(case)


def shard(tier, seedv, k, n, col: Collector):
    names = [nm for nm, _f in progs.snippets()]
    col.extra["sweep_snippets_total"] = len(names) if k == 0 else 0
    for idx, name in enumerate(names):
        if idx % n != k:
            continue
        for v in VERSIONS:
            for mode in ("app", "sig"):
                for asm in (False, True):
                    if asm and v < 3:
                        continue
                    case = {"snippet": name, "version": v, "mode": mode, "assemble": asm}
                    col.case()
                    for b, d in judge_snippet(case, col):
                        col.fail(b, d, case)
        if len(col.samples) < 2:
            kind, val = progs.compile_snippet(name, 8, "app")
            if kind == "teal":
                col.sample({"snippet": name, "version": 8, "mode": "app", "teal": val.split("\n")[:12]})

    def body(case):
        col.case()
        recipe = case["recipe"]
        col.cls("gen:" + ("degenerate" if recipe.get("degenerate") else ("constant-pool" if recipe.get("pool") else ("sub" if recipe.get("routines") else "core"))))
        res = judge_recipe(case, col)
        for b, d in res:
            col.fail(b, d, case)

    hyp_run(body, c20.case_strategy(tier), N_EX[tier], seedv, key=lambda c: c["recipe"], col=col)
