"""C12 - assembleConstants changes how constants load, not their values (site-by-site alignment + differential run)."""
from __future__ import annotations

import base64

from hypothesis import strategies as st

from .. import diff
from ..avm.interp import BudgetExceeded, run_prog
from ..avm.prims import Unsupported
from ..recipe import gen, gen_sub, legal, nodes as N
from ..runner import Collector, hyp_run, sha
from ..shrink import case_shrinks
from ..teal import parser as tp

ID = "C12"
LEVEL = "exploration"
RULE = (
    "Programs whose constant multiset is drawn explicitly: ints (small, >=128, 2^64-1), OnComplete/TxnType enums, byte "
    "constants in every spelling of the same value (\"a\", 0x61, base64, base32 with/without padding, escapes, non-ASCII), "
    "Addr, MethodSignature, Tmpl.Int/Bytes/Addr, repetition counts 1..6, frequency ties, 1..300 distinct repeated values; "
    "plus programs from the core and subroutine grammars; versions 3..10, both modes. Oracle (i) site-by-site: with "
    "intcblock/bytecblock removed the two instruction lists align; at each constant site the value decoded by the "
    "independent literal decoder from the pseudo-op equals the value the assembled form denotes (pushint/pushbytes, "
    "intc*/bytec* resolved through the block, index inside the block and <= 255, template names equal); all other "
    "instructions identical. Oracle (ii): both texts executed on generated contexts (templates substituted identically) "
    "give the same outcome. assembleConstants at version 2 must raise a PyTeal error. non-trivial = >=1 constant with "
    "frequency >=2 and >=2 spellings or kinds; distinct by recipe."
)
ASSUMPTIONS = ["vf/teal/parser.py literal grammar (independent of pyteal/util.py and compiler/constants.py)", "vf/avm semantics for the differential run"]
SHARDS = {"quick": 16, "thorough": 16}
N_EX = {"quick": 70, "thorough": 3000}
MIN_NONTRIVIAL = {"quick": 200, "thorough": 3000}

CONST_PLAIN = {"int", "byte", "addr", "method"}
INTC = {"intc", "intc_0", "intc_1", "intc_2", "intc_3"}
BYTEC = {"bytec", "bytec_0", "bytec_1", "bytec_2", "bytec_3"}


def _const_of(ins, prog):
    """value denoted at a constant-loading site: int | bytes | ('tmpl', name); raises ValueError when unresolvable"""
    op = ins.op
    if op in ("int", "pushint", "byte", "pushbytes", "addr", "method"):
        c = ins.const
        return ("tmpl", c.name) if isinstance(c, tp.Tmpl) else c
    if op in INTC or op in BYTEC:
        block = prog.intcblock if op in INTC else prog.bytecblock
        if op in ("intc", "bytec"):
            idx = int(ins.args[0], 0)
        else:
            idx = int(op[-1])
        if block is None:
            raise ValueError("%s without a constant block" % op)
        if idx > 255:
            raise ValueError("%s index %d does not fit a uint8" % (op, idx))
        if idx >= len(block):
            raise ValueError("%s index %d outside the block of %d entries" % (op, idx, len(block)))
        c = block[idx]
        return ("tmpl", c.name) if isinstance(c, tp.Tmpl) else c
    return None


def align(plain: str, asm: str):
    """-> list of problems (strings)"""
    p = tp.parse(plain)
    a = tp.parse(asm)
    pi = [i for i in p.instrs]
    ai = [i for i in a.instrs if i.op not in ("intcblock", "bytecblock")]
    probs = []
    nblocks = sum(1 for i in a.instrs if i.op in ("intcblock", "bytecblock"))
    if nblocks > 2 or any(i.op in ("intcblock", "bytecblock") for i in a.instrs[nblocks:]):
        probs.append("constant blocks are not at the start of the program")
    if len(pi) != len(ai):
        probs.append("instruction counts differ: %d vs %d" % (len(pi), len(ai)))
        return probs
    if p.labels.keys() != a.labels.keys():
        probs.append("label sets differ")
    for x, y in zip(pi, ai):
        if x.op in CONST_PLAIN:
            try:
                vx = _const_of(x, p)
                vy = _const_of(y, a)
            except ValueError as e:
                probs.append("line %d `%s`: %s" % (y.line + 1, a.lines[y.line].strip()[:60], e))
                continue
            if vy is None:
                probs.append("line %d: constant site `%s %s` became non-constant `%s`" % (y.line + 1, x.op, " ".join(x.args)[:40], y.op))
            elif vx != vy:
                probs.append("constant site `%s %s` denotes %r but the assembled form `%s` loads %r" % (x.op, " ".join(x.args)[:50], _show(vx), a.lines[y.line].strip()[:60], _show(vy)))
        else:
            if x.op != y.op or x.args != y.args:
                probs.append("non-constant instruction changed: `%s %s` vs `%s %s`" % (x.op, " ".join(x.args), y.op, " ".join(y.args)))
    return probs


def _show(v):
    return v.hex() if isinstance(v, (bytes, bytearray)) else v


def run_case(case, col=None):
    recipe = case["recipe"]
    out = []
    ctxs = diff.ctx_list(case) if case.get("ctxs") else []
    tm = {k: (v if isinstance(v, int) else bytes.fromhex(v)) for k, v in recipe.get("tmpl", {}).items()}
    for cfg in case["configs"]:
        v = cfg["version"]
        c_plain = dict(cfg, assemble=False)
        c_asm = dict(cfg, assemble=True)
        op = diff.compile_recipe(recipe, c_plain)
        oa = diff.compile_recipe(recipe, c_asm)
        if v < 3:
            if oa.teal is not None and op.teal is not None:
                out.append(("v2-accepted", "assembleConstants=True at version 2 returned TEAL (pushint/pushbytes need v3)"))
                break
            continue
        if op.teal is None:
            if col:
                col.cls("not-compiled")
            continue
        if oa.teal is None:
            out.append(("assembled-rejected", "cfg=%s: compiles without assembleConstants but with it raises %s: %s" % (cfg, type(oa.error or oa.crash).__name__, str(oa.error or oa.crash)[:200])))
            break
        if col:
            col.cls("compiled-pair")
        try:
            probs = align(op.teal, oa.teal)
        except tp.TealSyntaxError as e:
            out.append(("unparsable", "cfg=%s: %s\n%s" % (cfg, e, diff.short_teal(oa.teal, 30))))
            break
        if probs:
            kind = "site-index" if any("index" in p or "block" in p for p in probs) else ("site-value" if any("denotes" in p for p in probs) else "structure")
            out.append((kind, "cfg=%s: %s\n--- assembled ---\n%s" % (cfg, probs[0], diff.short_teal(oa.teal, 40))))
            break
        if ctxs:
            pp, pa = tp.parse(op.teal), tp.parse(oa.teal)
            for ci, c in enumerate(ctxs):
                try:
                    r1 = run_prog(pp, c, tmpl=tm)
                    r2 = run_prog(pa, c, tmpl=tm)
                except (BudgetExceeded, Unsupported):
                    continue
                if col:
                    col.cls("executed-pair")
                if r1.observable() != r2.observable():
                    out.append(("behaviour", "cfg=%s ctx#%d: plain gives %s, assembled gives %s" % (cfg, ci, diff.describe_result(r1), diff.describe_result(r2))))
                    break
            if out:
                break
    return out


def judge(case):
    return run_case(case)


def shrinks(case):
    return case_shrinks(case)


# ---------------------------------------------------------------- constant-pool generator

ADDR0 = "AAAAAAAAAAAAAAAAAAAAAAAAAAAAAAAAAAAAAAAAAAAAAAAAAAAAY5HFKQ"


def spellings(draw, value: bytes):
    """all recipe nodes that denote the byte string `value`"""
    out = [["bytes", value.hex()], ["b16", value.hex()], ["b16", "0x" + value.hex().upper()]]
    b64 = base64.b64encode(value).decode()
    out.append(["b64", b64])
    b32 = base64.b32encode(value).decode()
    out.append(["b32", b32])
    out.append(["b32", b32.rstrip("=")])
    try:
        s = value.decode("utf-8")
        if s.encode("utf-8") == value:
            out.append(["str", s])
    except UnicodeDecodeError:
        pass
    if len(value) == 32:
        out.append(["addr", tp.encode_address(value)])
    return out


@st.composite
def pool_recipe(draw):
    mode = draw(st.sampled_from(["app", "sig"]))
    big = draw(st.integers(0, 29)) == 0
    items = []
    tmpl = {}
    kinds = set()
    nspell = 0
    # ints
    nint = draw(st.integers(0, 7)) if not big else draw(st.sampled_from([120, 255, 256, 257, 300]))
    ints = draw(st.lists(st.one_of(st.integers(0, 5), st.integers(100, 140), st.sampled_from([127, 128, 255, 256, 2**32, 2**64 - 1]), st.integers(0, 2**64 - 1)), min_size=nint, max_size=nint, unique=True)) if not big else list(range(1000, 1000 + nint))
    for v in ints:
        reps = draw(st.integers(1, 6)) if not big else 2
        for _ in range(reps):
            items.append(["pop", ["int", v]])
        kinds.add("int")
    # enums (equal in value to small ints -> share entries)
    for _ in range(draw(st.integers(0, 3))):
        e = draw(st.sampled_from(sorted(N.ENUMS)))
        for _ in range(draw(st.integers(1, 3))):
            items.append(["pop", ["enum", e]])
        kinds.add("enum")
    # byte values with several spellings
    nb = draw(st.integers(0, 5)) if not big else draw(st.sampled_from([0, 257]))
    vals = draw(st.lists(st.one_of(st.binary(max_size=6), st.text(alphabet='ab"\\\n;/ é\t', max_size=5).map(lambda s: s.encode()), st.just(bytes(32)), st.binary(min_size=32, max_size=32)), min_size=nb, max_size=nb, unique=True)) if not big else [(i).to_bytes(3, "big") for i in range(nb)]
    for v in vals:
        sp = spellings(draw, v)
        reps = draw(st.integers(1, 5)) if not big else 2
        used = set()
        for _ in range(reps):
            node = draw(st.sampled_from(sp))
            used.add(node[0] + node[1][:2])
            items.append(["pop", node])
        if len(used) >= 2:
            nspell += 1
        kinds.add("bytes")
    # method signatures / addresses / templates
    for _ in range(draw(st.integers(0, 2))):
        sig = draw(st.sampled_from(["add(uint64,uint64)uint64", "f()void", "g(string,(bool,byte))byte[]", "h(pay,account)uint8"]))
        for _ in range(draw(st.integers(1, 3))):
            items.append(["pop", ["msig", sig]])
        kinds.add("method")
        if draw(st.booleans()):
            items.append(["pop", ["bytes", tp.method_selector(sig.encode()).hex()]])
            nspell += 1
        if draw(st.booleans()):
            # the signature TEXT as an ordinary string constant next to the method literal (same spelling, other value)
            for _ in range(draw(st.integers(1, 2))):
                items.append(["pop", ["str", sig]])
            kinds.add("bytes")
    for _ in range(draw(st.integers(0, 2))):
        name = "TMPL_" + draw(st.sampled_from(["A", "B", "X1"]))
        k = draw(st.sampled_from(["tmpli", "tmplb", "tmpla"]))
        name = name + {"tmpli": "I", "tmplb": "B", "tmpla": "A"}[k]
        tmpl[name] = draw(st.integers(0, 2**64 - 1)) if k == "tmpli" else (draw(st.binary(min_size=32, max_size=32)).hex() if k == "tmpla" else draw(st.binary(max_size=5)).hex())
        for _ in range(draw(st.integers(1, 4))):
            items.append(["pop", [k, name]])
        kinds.add("tmpl")
    if not items:
        items.append(["pop", ["int", 7]])
        items.append(["pop", ["int", 7]])
    items = draw(st.permutations(items)) if len(items) < 60 else items
    # some arithmetic over constants so values matter at run time
    tail = ["nary", "Add", [["int", draw(st.integers(0, 3))], ["int", draw(st.sampled_from([0, 1, 128, 1000]))]]]
    recipe = {"mode": mode, "level": 3, "vars": {}, "routines": [], "main": ["seq", list(items) + [tail]], "tmpl": tmpl, "pool": True, "kinds": sorted(kinds), "nspell": nspell}
    return recipe


@st.composite
def case_strategy(draw, tier):
    w = draw(st.integers(0, 9))
    if w < 6:
        recipe = draw(pool_recipe())
    elif w < 8:
        recipe = draw(gen.core_recipe(max_budget=40))
    else:
        recipe = draw(gen_sub.sub_recipe(max_budget=45))
    lo = max(3, legal.min_version(recipe))
    vs = sorted({lo, draw(st.integers(lo, 10)), 10} | ({2} if legal.min_version(recipe) <= 2 and draw(st.integers(0, 4)) == 0 else set()))
    ctxs = [draw(gen.one_context(recipe["mode"])).to_json() for _ in range(2)]
    return {"recipe": recipe, "ctxs": ctxs, "configs": [{"version": v} for v in vs]}


def shard(tier, seedv, k, n, col: Collector):
    def body(case):
        col.case()
        recipe = case["recipe"]
        res = run_case(case, col)
        col.cls("gen:" + ("pool" if recipe.get("pool") else ("sub" if recipe.get("routines") else "core")))
        if recipe.get("pool"):
            for kd in recipe.get("kinds", []):
                col.cls("pool-kind:" + kd)
            if recipe.get("nspell", 0) >= 1 or len(recipe.get("kinds", [])) >= 2:
                col.nontriv(sha(recipe))
            if len(recipe["main"][1]) > 300:
                col.cls("pool:large(>300 constant sites)")
        for b, d in res:
            col.fail(b, d, case)
        if not res and recipe.get("pool") and len(col.samples) < 3 and len(recipe["main"][1]) < 25:
            oa = diff.compile_recipe(recipe, {"version": 6, "assemble": True})
            col.sample({"main": recipe["main"], "assembled": (oa.teal or "").split("\n")[:30]})

    hyp_run(body, case_strategy(tier), N_EX[tier], seedv, key=lambda c: c["recipe"], col=col)
