"""C20 - compilation is total: TEAL or a PyTeal error, never a crash; legal programs are accepted."""
from __future__ import annotations

import threading

from hypothesis import strategies as st

from .. import diff
from ..recipe import gen, gen_sub, legal, nodes as N
from ..recipe.build import Builder
from ..runner import Collector, hyp_run, sha
from ..shrink import case_shrinks

ID = "C20"
LEVEL = "exploration"
RULE = (
    "Well-typed recipes from three generators - core grammar, subroutine call graphs, and a degenerate-shape grammar "
    "(loop first in a routine, bodies that are only Break/Continue, empty Seq/arms, nested empty loops, one-arm Cond, "
    "Return in every position, loops whose cycle has only conditional blocks, adjacent store/load in loops, long "
    "straight-line code), and constant-heavy programs (C12's pool grammar: repeated int/bytes/template/method/address "
    "constants) x versions 2..10 x modes x scratch_slots x frame_pointers x assembleConstants x "
    "{compileTeal, Compilation.compile}; each compile runs in a fresh thread (user-level stack depth). Oracle: outcome "
    "is TEAL or one of PyTeal's error types; and an independent legality model (docs' minimum versions, mode) => TEAL. "
    "non-trivial = recipe has a loop or >=3 nested control constructs or is from the degenerate grammar or is a constant-pool program with >=2 kinds of constant; distinct by recipe."
)
ASSUMPTIONS = [
    "vf/recipe/legal.py minimum versions follow the PyTeal docs / AVM langspec (conservative: too high only loses coverage)",
    "default Python recursion limit (1000), compile started from a fresh thread",
]
SHARDS = {"quick": 16, "thorough": 16}
N_EX = {"quick": 70, "thorough": 3000}
MIN_NONTRIVIAL = {"quick": 150, "thorough": 3000}
LONG = {"quick": [60, 200], "thorough": [60, 200, 320, 400, 1000, 3000]}

_ERRS = None


def _compile_in_thread(recipe, cfg):
    """-> ('teal', text) | ('pyteal-error', exc) | ('crash', exc)"""
    import pyteal as pt

    box = {}

    def work():
        diff.reset_pyteal_state()
        try:
            ast = Builder(recipe, pt).build()
            opt = diff.optimize_of(cfg)
            if cfg.get("api") == "Compilation":
                res = pt.Compilation(ast, diff.mode_of(recipe), version=cfg["version"], assemble_constants=bool(cfg.get("assemble")), optimize=opt).compile()
                box["r"] = ("teal", res.teal)
            else:
                box["r"] = ("teal", pt.compileTeal(ast, diff.mode_of(recipe), version=cfg["version"], assembleConstants=bool(cfg.get("assemble")), optimize=opt))
        except diff.pyteal_errors() as e:
            box["r"] = ("pyteal-error", e)
        except N.RecipeError as e:
            box["r"] = ("harness", e)
        except BaseException as e:  # noqa
            box["r"] = ("crash", e)
        finally:
            diff.reset_pyteal_state()

    th = threading.Thread(target=work)
    th.start()
    th.join()
    return box.get("r", ("crash", RuntimeError("no result")))


def _innermost_pyteal_frame(e) -> str:
    import traceback

    tb = traceback.extract_tb(e.__traceback__)
    fr = [f for f in tb if "/pyteal/" in f.filename]
    if not fr:
        return "?"
    f = fr[-1]
    return "%s:%s" % (f.filename.split("/pyteal/")[-1], f.name)


def run_case(case, col=None):
    recipe = case["recipe"]
    out = []
    for cfg in case["configs"]:
        kind, val = _compile_in_thread(recipe, cfg)
        if col:
            col.cls("outcome:" + kind)
        if kind == "harness":
            raise val
        if kind == "crash":
            out.append(("crash:%s:%s" % (type(val).__name__, _innermost_pyteal_frame(val)), "cfg=%s raised %s: %s" % (cfg, type(val).__name__, str(val)[:300])))
        elif kind == "pyteal-error":
            if legal.legal(recipe, cfg):
                msg = str(val)
                key = type(val).__name__ + ":" + " ".join(msg.split()[:6])
                out.append(("rejected-legal:%s" % key[:80], "cfg=%s (legal per docs: min version %d) rejected with %s: %s" % (cfg, legal.min_version(recipe), type(val).__name__, msg[:400])))
            elif col:
                col.cls("rejected-not-legal")
        else:
            if col and legal.legal(recipe, cfg):
                col.cls("accepted-legal")
    return out


def judge(case):
    return run_case(case)


def shrinks(case):
    return case_shrinks(case)


# ---------------------------------------------------------------- degenerate-shape grammar


def _cond(g):
    k = g.i(0, 4)
    if k == 0:
        return ["int", g.i(0, 1)]
    if k == 1:
        return ["bin", "Lt", ["txn", "fee"], ["int", g.i(0, 2000)]]
    if k == 2:
        return ["un", "Not", ["txn", "amount"]]
    if k == 3:
        return ["nary", "And", [["txn", "fee"], ["int", 1]]]
    return ["bin", "Eq", ["txn", "first_valid"], ["int", g.i(0, 5)]]


def _dstmt(g, depth, in_loop, in_routine, ret):
    k = g.i(0, 15) if depth < 4 else g.i(9, 15)
    if k == 0:
        return ["while", _cond(g), _dblock(g, depth + 1, True, in_routine, ret)]
    if k == 1:
        v = g.new_var("U", gen.Cx(), counter=True)
        return ["for", ["store", v, ["int", 0]], ["bin", "Lt", ["load", v], ["int", 3]], ["store", v, ["nary", "Add", [["load", v], ["int", 1]]]], _dblock(g, depth + 1, True, in_routine, ret)]
    if k == 2:
        return ["if", _cond(g), _dblock(g, depth + 1, in_loop, in_routine, ret), _dblock(g, depth + 1, in_loop, in_routine, ret) if g.chance(5) else None, g.pick(["fn", "then"])]
    if k == 3:
        arms = [[_cond(g), _dblock(g, depth + 1, in_loop, in_routine, ret)] for _ in range(g.i(1, 2))]
        return ["cond", arms]
    if k == 4:
        return ["seq", []]
    if k == 5 and in_loop:
        return ["break"]
    if k == 6 and in_loop:
        return ["continue"]
    if k == 7:
        if not in_routine:
            return g.pick([["approve"], ["reject"], ["return", ["int", 1]]])
        if ret == "N":
            return g.pick([["return", None], ["approve"]])
        return ["return", ["int", 3] if ret == "U" else ["bytes", "aa"]]
    if k == 8:
        # adjacent store/load (optimizer trigger), possibly inside a loop
        v = g.new_var("U", gen.Cx(), counter=True)
        return ["seq", [["store", v, ["txn", "fee"]], ["pop", ["load", v]]]]
    if k == 9 and in_loop:
        return ["if", _cond(g), g.pick([["break"], ["continue"]]), None, "then"]
    if k == 10:
        return ["while", _cond(g), g.pick([["break"], ["continue"], ["seq", []], ["seq", [["continue"]]], ["if", _cond(g), ["continue"], None, "fn"]])]
    if k == 11:
        return ["assert", [_cond(g)], None]
    if k == 12:
        return ["pop", ["int", g.i(0, 5)]]
    if k == 13:
        return ["nop"]
    if k == 14:
        return ["pop", ["if", _cond(g), ["int", 1], ["int", 2], "fn"]]
    return ["pop", ["bytes", "00"]]


def _dblock(g, depth, in_loop, in_routine, ret):
    n = g.pick([0, 1, 1, 2, 3])
    items = [_dstmt(g, depth, in_loop, in_routine, ret) for _ in range(n)]
    if len(items) == 1 and g.chance(5):
        return items[0]
    return ["seq", items]


def _tail_chain(g, in_routine, final_else):
    """If/ElseIf chain of 2..4 links in which every Then-branch leaves the routine, as the LAST statement of a routine:
    without a final Else the routine can still run off the chain's end (the compiler has to add the return itself)"""
    def exit_():
        if in_routine:
            return g.pick([["return", None], ["return", None], ["approve"], ["seq", [["pop", ["int", 2]], ["return", None]]]])
        return g.pick([["approve"], ["reject"], ["return", ["int", 1]], ["seq", [["pop", ["int", 2]], ["return", ["int", 0]]]]])

    links = g.i(2, 4)
    node = exit_() if final_else else None
    for _ in range(links):
        style = g.pick(["fn", "then", "elseif"])
        node = ["if", _cond(g), exit_(), node, style]
    return node


@st.composite
def degenerate_recipe(draw, long_sizes):
    g = gen.G(draw, draw(st.sampled_from(["app", "sig"])), 4, 1000, {"explicit_slots": False})
    nr = g.pick([0, 0, 1, 2])
    routines = []
    for i in range(nr):
        ret = g.pick(["N", "U", "B"])
        items = [_dstmt(g, 0, False, True, ret) for _ in range(g.i(1, 3))]
        if ret != "N":
            items.append(["int", 7] if ret == "U" else ["bytes", "07"])
        elif g.chance(3):
            items.append(_tail_chain(g, True, g.chance(3)))
        routines.append({"name": "d%d" % i, "kind": "sub", "params": [], "ret": ret, "locals": {}, "body": ["seq", items] if g.chance(8) else (items[0] if len(items) == 1 else ["seq", items])})
    kind = g.i(0, 12)
    if kind == 12:
        # a variable shared by main and a routine, written only inside the routine main calls before reading it (legal:
        # the load-before-store check treats slots shared between routines as initialised)
        g.vars.clear()
        nsh = g.i(1, 3)
        for j in range(nsh):
            g.vars["sh%d" % j] = {"t": "U", "slot": g.pick([None, None, 200 + j])}
        wbody = [["store", "sh%d" % j, ["int", 5 + j]] for j in range(nsh)]
        routines = [{"name": "w0", "kind": "sub", "params": [], "ret": g.pick(["N", "U"]), "locals": {}, "body": None}]
        if routines[0]["ret"] == "U":
            wbody.append(["int", 1])
        routines[0]["body"] = ["seq", wbody]
        call = ["callN", 0, []] if routines[0]["ret"] == "N" else ["pop", ["call", 0, []]]
        shape = g.i(0, 2)
        reads = [["pop", ["load", "sh%d" % j]] for j in range(nsh)]
        if shape == 0:
            items = [call] + reads
        elif shape == 1:
            items = [["if", _cond(g), call, None, "then"]] + reads
        else:
            items = [call, ["if", _cond(g), ["seq", reads], None, "then"]] + reads[:1]
        nr = 0
        items.append(["int", 1])
        return {"mode": g.mode, "level": 4, "vars": g.vars, "routines": routines, "main": ["seq", items], "degenerate": True}
    if kind == 0:
        nlong = g.pick(long_sizes)
        items = [["pop", ["int", j % 7]] for j in range(nlong)]
    elif kind == 1:
        # slot-limit shape: r explicitly numbered + a automatically numbered variables, all live at once
        r = g.pick([0, 1, 1, 2, 16])
        total = g.pick([250, 254, 255, 256, 256, 257, 258])
        ids = draw(st.lists(st.integers(0, 255), min_size=r, max_size=r, unique=True))
        items = []
        g.vars.clear()
        for j in range(total):
            name = "m%d" % j
            g.vars[name] = {"t": "U", "slot": ids[j] if j < r else None}
            items.append(["store", name, ["int", j % 5]])
        items.append(["pop", ["load", "m%d" % g.i(0, total - 1)]])
        nr, routines = 0, []
    else:
        items = [_dstmt(g, 0, False, False, None) for _ in range(g.i(1, 4))]
    for i, r in enumerate(routines):
        c = ["callN" if r["ret"] == "N" else "call", i, []]
        items.insert(g.i(0, len(items)), c if r["ret"] == "N" else ["pop", c])
    if kind >= 2 and g.chance(2):
        items.append(_tail_chain(g, False, True))  # every path of main leaves through the chain
    else:
        items.append(["int", 1])
    # counter vars created via new_var live in g.vars (globals); they are stored before being loaded
    return {"mode": g.mode, "level": 4, "vars": g.vars, "routines": routines, "main": ["seq", items], "degenerate": True}


def _configs(draw, recipe, thorough):
    cfgs = []
    versions = list(range(2, 11)) if thorough else sorted({draw(st.integers(2, 10)), legal.min_version(recipe), 8, 9, 10})
    for v in versions:
        cfg = {"version": v}
        k = draw(st.integers(0, 7))
        if k & 1:
            cfg["scratch_slots"] = draw(st.booleans())
        if k & 2:
            cfg["frame_pointers"] = draw(st.booleans())
        if k == 7 or draw(st.integers(0, 4)) == 0 or (recipe.get("pool") and k != 0):
            cfg["assemble"] = True
        if draw(st.integers(0, 3)) == 0:
            cfg["api"] = "Compilation"
        cfgs.append(cfg)
    return cfgs


@st.composite
def case_strategy(draw, tier):
    which = draw(st.integers(0, 11))
    if which >= 10:
        # constant-heavy programs (many int/bytes/template/method/address constants with repeated use)
        from .c12 import pool_recipe

        recipe = draw(pool_recipe())
    elif which <= 3:
        recipe = draw(degenerate_recipe(LONG[tier]))
    elif which <= 6:
        recipe = draw(gen.core_recipe(max_budget=40 if tier == "quick" else 90))
    else:
        recipe = draw(gen_sub.sub_recipe(max_budget=50 if tier == "quick" else 90))
    return {"recipe": recipe, "configs": _configs(draw, recipe, tier == "thorough")}


def _nesting(n, d=0):
    t = n[0]
    best = d + (1 if t in ("if", "cond", "while", "for") else 0)
    m = best
    for c in N.children(n):
        m = max(m, _nesting(c, best))
    return m


def shard(tier, seedv, k, n, col: Collector):
    def body(case):
        col.case()
        recipe = case["recipe"]
        tg = {x[0] for x in N.recipe_nodes(recipe)}
        deg = bool(recipe.get("degenerate"))
        col.cls("gen:" + ("degenerate" if deg else ("constant-pool" if recipe.get("pool") else ("sub" if recipe.get("routines") else "core"))))
        nest = max([_nesting(recipe["main"])] + [_nesting(r["body"]) for r in recipe.get("routines", [])])
        if deg or tg & {"while", "for"} or nest >= 3 or (recipe.get("pool") and len(recipe.get("kinds", [])) >= 2):
            col.nontriv(sha(recipe))
        if deg:
            main = recipe["main"][1]
            if main and main[0][0] in ("while", "for"):
                col.cls("shape:loop-first-in-main")
            for r in recipe["routines"]:
                b = r["body"]
                first = b[1][0] if b[0] == "seq" and b[1] else b
                if first[0] in ("while", "for"):
                    col.cls("shape:loop-first-in-routine")
            if len(main) > 100:
                col.cls("shape:long-%d" % (len(main) - 1))
        res = run_case(case, col)
        for b, d in res:
            col.fail(b, d, case)
        if not res and deg and len(col.samples) < 3 and N.size(recipe["main"]) < 60:
            col.sample({"main": recipe["main"], "routines": [r["body"] for r in recipe["routines"]], "configs": case["configs"][:2]})

    hyp_run(body, case_strategy(tier), N_EX[tier], seedv, key=lambda c: c["recipe"], col=col)
