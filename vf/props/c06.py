"""C06 - ABI values assembled with set(...) encode exactly per ARC-4 (reference codec: algosdk.abi)."""
# NOTE: no `from __future__ import annotations`
import json

from hypothesis import strategies as st

from .. import diff
from ..abi import progs as P
from ..abi import shapes as S
from ..avm.context import Ctx
from ..avm.interp import BudgetExceeded, run_prog
from ..avm.prims import Unsupported
from ..runner import Collector, hyp_run, sha
from ..teal import parser as tp

ID = "C06"
LEVEL = "exploration"
RULE = (
    "ARC-4 type shapes from the grammar bool|byte|uint8/16/32/64|address|string|byte[N]|byte[] (StaticBytes/DynamicBytes "
    "spellings)|T[N] (N in 0,1,2,3,5,8,9,17)|T[]|tuple (0..5 members, bool runs of 2/7/8/9/16/17)|NamedTuple (1..8 fields), "
    "nesting depth <= 3; values boundary-biased; each value is assembled from its parts with set(...): leaves from Python "
    "literals (all accepted Python forms), from computed expressions, from application arguments, from copies of other "
    "ABI values and from Byte sequences; containers by set(*members)/set([elements]) or by copy. Back-ends: main routine "
    "(scratch slots) and inside a Subroutine (frame cells with frame pointers at v8+, scratch otherwise); versions 6, 8, 10 "
    "(+7/9 in thorough). Oracle: logged encode() bytes == algosdk.abi.ABIType.from_string(str(spec)).encode(value); "
    "str(spec), is_dynamic(), byte_length_static() agree with algosdk; Python ints >= 2^N are rejected at set(); expression "
    "values >= 2^N make the run fail. non-trivial = shape with a bool run >= 2, a dynamic member that is not last, or "
    "depth >= 2; distinct by (shape, value, plan)."
)
ASSUMPTIONS = ["algosdk.abi is the ARC-4 reference codec", "vf/avm byte/extract/setbit/concat semantics"]
SHARDS = {"quick": 16, "thorough": 16}
N_EX = {"quick": 60, "thorough": 2500}
MIN_NONTRIVIAL = {"quick": 200, "thorough": 3000}
VERSIONS = {"quick": [6, 8, 10], "thorough": [6, 7, 8, 9, 10]}


def compile_prog(build, version, fp=None):
    """build() -> (expr, args). -> ('teal', text, args) | ('rejected', exc, None) | ('crash', exc, None)"""
    import pyteal as pt

    diff.reset_pyteal_state()
    try:
        prog, args = build()
        opt = pt.OptimizeOptions(frame_pointers=fp) if fp is not None else None
        teal = pt.compileTeal(prog, pt.Mode.Application, version=version, optimize=opt)
        return "teal", teal, args
    except diff.pyteal_errors() as e:
        return "rejected", e, None
    except Exception as e:  # noqa
        return "crash", e, None
    finally:
        diff.reset_pyteal_state()


def type_facts(s):
    import pyteal as pt

    spec = S.pt_spec(pt, s)
    ref = S.sdk_type(s)
    out = []
    if str(spec) != str(ref):
        out.append(("type-string", "str(spec)=%r but the reference type prints %r" % (str(spec), str(ref))))
    if spec.is_dynamic() != ref.is_dynamic():
        out.append(("is-dynamic", "%s: is_dynamic()=%r, reference says %r" % (S.sdk_str(s), spec.is_dynamic(), ref.is_dynamic())))
    if not ref.is_dynamic():
        try:
            bl = spec.byte_length_static()
        except Exception as e:  # noqa
            bl = "raised %r" % e
        if bl != ref.byte_len():
            out.append(("byte-length", "%s: byte_length_static()=%r, reference byte_len()=%r" % (S.sdk_str(s), bl, ref.byte_len())))
    # the other direction: a TypeSpec obtained FROM the reference type / a signature string describes the same type
    txt = str(ref)
    for how, f in (
        ("type_spec_from_algosdk(ABIType)", lambda: pt.abi.type_spec_from_algosdk(ref)),
        ("type_specs_from_signature arg", lambda: pt.abi.type_specs_from_signature("m(%s)void" % txt)[0][0]),
        ("type_specs_from_signature return", lambda: pt.abi.type_specs_from_signature("m()%s" % txt)[1]),
    ):
        try:
            back = f()
        except Exception as e:  # noqa
            out.append(("from-reference-crash", "%s raised %r for %s" % (how, e, txt)))
            continue
        if str(back) != txt:
            out.append(("from-reference-string", "%s of %r prints %r" % (how, txt, str(back))))
        elif back.is_dynamic() != ref.is_dynamic() or (not ref.is_dynamic() and back.byte_length_static() != ref.byte_len()):
            out.append(("from-reference-facts", "%s of %r: is_dynamic/byte length differ from the reference" % (how, txt)))
    try:
        rt = pt.abi.algosdk_from_type_spec(spec)
        if str(rt) != txt:
            out.append(("to-reference-string", "algosdk_from_type_spec(%s) prints %r" % (txt, str(rt))))
    except Exception as e:  # noqa
        out.append(("to-reference-crash", "algosdk_from_type_spec raised %r for %s" % (e, txt)))
    return out


def run_case(case, col=None):
    import pyteal as pt

    s = case["shape"]
    out = []
    if case.get("kind") == "bad-copy":
        # set(other ABI instance): allowed only between scalar types of the same width (uintN/byte) or bool<-bool
        src, dst = case["src"], case["dst"]

        def bits(x):
            return 8 if x[0] == "byte" else (x[1] if x[0] == "uint" else None)

        allowed = (src[0] == dst[0] == "bool") or (bits(src) is not None and bits(src) == bits(dst))
        try:
            diff.reset_pyteal_state()
            a = S.pt_spec(pt, src).new_instance()
            b = S.pt_spec(pt, dst).new_instance()
            b.set(a)
            if not allowed:
                out.append(("copy-accepted", "%s.set(<%s instance>) was accepted: a value that does not fit would be stored unchecked" % (S.sdk_str(dst), S.sdk_str(src))))
        except diff.pyteal_errors():
            if allowed:
                out.append(("copy-rejected", "%s.set(<%s instance>) was rejected" % (S.sdk_str(dst), S.sdk_str(src))))
        finally:
            diff.reset_pyteal_state()
        return out
    if case.get("kind") == "overflow":
        n = case["bits"]
        val = case["value"]
        leaf = ["uint", n] if n != "byte" else ["byte"]
        bits = 8 if n == "byte" else n
        # python int must be rejected at set()
        try:
            diff.reset_pyteal_state()
            S.pt_spec(pt, leaf).new_instance().set(val)
            if val >= 2**bits or val < 0:
                out.append(("overflow-accepted", "%s.set(%d) was accepted (python int outside [0, 2^%d))" % (S.sdk_str(leaf), val, bits)))
        except diff.pyteal_errors():
            if 0 <= val < 2**bits:
                out.append(("in-range-rejected", "%s.set(%d) rejected" % (S.sdk_str(leaf), val)))
        except Exception as e:  # noqa
            if col:
                col.cls("overflow-crash:%s" % type(e).__name__)
        # expression value must make the run fail iff out of range
        if 0 <= val < 2**64:
            for v in case["versions"]:
                form = case.get("form", "btoi")

                def build():
                    x = S.pt_spec(pt, leaf).new_instance()
                    if form == "int-literal":
                        e = pt.Int(val)
                    elif form == "sum" and val >= 1:
                        e = pt.Int(val - 1) + pt.Int(1)
                    elif form == "if":
                        e = pt.If(pt.Int(1), pt.Int(val), pt.Int(0))
                    else:
                        e = pt.Btoi(pt.Bytes(val.to_bytes(8, "big")))
                    return pt.Seq(x.set(e), pt.Log(x.encode()), pt.Int(1)), []

                kind, teal, _a = compile_prog(build, v)
                if kind != "teal":
                    continue
                r = run_prog(tp.parse(teal), Ctx())
                if val >= 2**bits and r.verdict != "fail":
                    out.append(("overflow-expr-not-failing", "v%d: %s.set(<%s expression of value %d>) ran to %s instead of failing" % (v, S.sdk_str(leaf), form, val, diff.describe_result(r))))
                if val < 2**bits and r.verdict == "fail":
                    out.append(("in-range-expr-failing", "v%d: %s.set(<%s expression of value %d>) failed: %s" % (v, S.sdk_str(leaf), form, val, r.panic_msg)))
                if val < 2**bits and r.verdict != "fail":
                    want_log = val.to_bytes(bits // 8, "big")
                    got_logs = [e[1] for e in r.events if e[0] == "log"]
                    if got_logs != [want_log]:
                        out.append(("in-range-expr-encoding", "v%d: %s.set(<%s expression of value %d>) encodes to %s, expected %s" % (v, S.sdk_str(leaf), form, val, [x.hex() for x in got_logs], want_log.hex())))
        return out
    v = S.unjson(s, case["value"])
    out += type_facts(s)
    if out:
        return out
    try:
        want = S.encode(s, v)
    except Exception:  # noqa  (the reference codec refuses the value, e.g. an encoding longer than a uint16 offset allows)
        if col:
            col.cls("discard:reference-codec-refuses-value")
        return out
    if len(want) > 1000:
        if col:
            col.cls("discard:encoding-over-1000-bytes")
        return out
    for cfg in case["configs"]:
        backend = cfg["backend"]
        kind, teal, args = compile_prog(lambda: P.build_set_program(pt, s, v, case["plan"], backend), cfg["version"], cfg.get("fp"))
        if kind == "rejected":
            msg = str(teal)
            if "Too many slots" in msg or cfg["version"] < 6:
                if col:
                    col.cls("rejected:slot-limit")
                continue
            # every construction the generator makes is a documented form of set(); refusing it is a failure to encode
            out.append(("construction-rejected", "cfg=%s: assembling %s = %r (plan %s) was rejected: %s: %s" % (cfg, S.sdk_str(s), case["value"], json.dumps(case["plan"])[:200], type(teal).__name__, msg[:200])))
            break
        if kind == "crash" and isinstance(teal, RecursionError):
            # several hundred sequential statements: finding F8 (C20), not an encoding question
            if col:
                col.cls("discard:program-too-long(F8)")
            continue
        if kind == "crash":
            out.append(("build-crash:%s" % type(teal).__name__, "cfg=%s: %s for %s: %s" % (cfg, type(teal).__name__, S.sdk_str(s), str(teal)[:200])))
            break
        if col:
            col.cls("compiled:%s" % backend)
        iss = diff.static_issue(teal, cfg["version"])
        if iss is not None:
            out.append(("illegal-teal:%s" % iss.kind, "cfg=%s: program for %s is not legal TEAL: %s\n%s" % (cfg, S.sdk_str(s), iss, diff.short_teal(teal, 50))))
            break
        try:
            prog = tp.parse(teal)
        except tp.TealSyntaxError as e:
            out.append(("unparsable", "%s" % e))
            break
        ctx = Ctx(group=[{"ApplicationArgs": list(args), "ApplicationID": 1001, "TypeEnum": 6}])
        try:
            r = run_prog(prog, ctx)
        except (BudgetExceeded, Unsupported) as e:
            if col:
                col.cls("discard:%s" % type(e).__name__)
            continue
        logs = [e[1] for e in r.events if e[0] == "log"] if r.verdict != "fail" else None
        if r.verdict == "fail":
            out.append(("run-failed:%s" % r.panic, "cfg=%s: program assembling %s = %r failed (%s) at line %d\n%s" % (cfg, S.sdk_str(s), case["value"], r.panic_msg, r.panic_line + 1, diff.short_teal(teal, 50))))
            break
        if not logs or logs[-1] != want:
            got = logs[-1].hex() if logs else None
            out.append(("encoding", "cfg=%s: %s = %r encodes to %s, reference codec gives %s\n%s" % (cfg, S.sdk_str(s), case["value"], got, want.hex(), diff.short_teal(teal, 60))))
            break
    return out


def judge(case):
    return run_case(json.loads(json.dumps(case)))


def _shape_shrinks(s, v, plan):
    """smaller (shape, value, plan) triples"""
    t = s[0]
    if t in ("tuple", "named"):
        ms = S.members(s)
        for i in range(len(ms)):
            # drop member i
            if t == "tuple":
                ns = ["tuple", ms[:i] + ms[i + 1:]]
            else:
                ns = ["named", s[1][:i] + s[1][i + 1:]]
                if not ns[1]:
                    continue
            yield ns, v[:i] + v[i + 1:], {"mode": plan["mode"], "kids": plan["kids"][:i] + plan["kids"][i + 1:]}
        for i in range(len(ms)):
            yield ms[i], v[i], plan["kids"][i]
            for cs, cv, cp in _shape_shrinks(ms[i], v[i], plan["kids"][i]):
                if t == "tuple":
                    ns = ["tuple", ms[:i] + [cs] + ms[i + 1:]]
                else:
                    ns = ["named", s[1][:i] + [[s[1][i][0], cs]] + s[1][i + 1:]]
                yield ns, v[:i] + [cv] + v[i + 1:], {"mode": plan["mode"], "kids": plan["kids"][:i] + [cp] + plan["kids"][i + 1:]}
        if plan["mode"] != "members":
            yield s, v, dict(plan, mode="members")
    elif t in ("sa", "da"):
        if v:
            yield s[1], v[0], plan["kid"]
        if t == "da" and v:
            yield s, v[:-1], plan
            yield s, v[1:], plan
        if t == "sa" and s[2] > 0:
            yield ["sa", s[1], s[2] - 1], v[:-1], plan
        if plan["mode"] != "members":
            yield s, v, dict(plan, mode="members")
    else:
        if plan != "py":
            yield s, v, "py"


def shrinks(case):
    if case.get("kind") in ("overflow", "bad-copy"):
        return
    if len(case["configs"]) > 1:
        for cfg in case["configs"]:
            yield dict(case, configs=[cfg])
    s = case["shape"]
    v = S.unjson(s, case["value"])
    for ns, nv, npl in _shape_shrinks(s, v, case["plan"]):
        yield dict(case, shape=ns, value=S.jsonable(ns, nv), plan=npl)


@st.composite
def case_strategy(draw, tier):
    if draw(st.integers(0, 14)) == 0:
        bits = draw(st.sampled_from(["byte", 8, 16, 32, 64]))
        b = 8 if bits == "byte" else bits
        val = draw(st.sampled_from([2**b - 1, 2**b, 2**b + 1, 2**64 - 1, 0, -1, 2**64]))
        return {"kind": "overflow", "shape": ["uint", b], "bits": bits, "value": val, "versions": VERSIONS[tier][:2]}
    if draw(st.integers(0, 19)) == 0:
        sc = [["bool"], ["byte"], ["uint", 8], ["uint", 16], ["uint", 32], ["uint", 64]]
        return {"kind": "bad-copy", "shape": ["bool"], "src": draw(st.sampled_from(sc)), "dst": draw(st.sampled_from(sc))}
    s = draw(S.shape_strategy(max_depth=3))
    v = draw(S.value_strategy(s))
    plan = draw(P.plan_strategy(s))
    cfgs = []
    for ver in VERSIONS[tier]:
        backend = draw(st.sampled_from(["main", "sub"]))
        cfg = {"version": ver, "backend": backend}
        if backend == "sub" and ver >= 8 and draw(st.integers(0, 3)) == 0:
            cfg["fp"] = False
        cfgs.append(cfg)
    return {"shape": s, "value": S.jsonable(s, v), "plan": plan, "configs": cfgs}


def overflow_grid(tier):
    """the finite grid of width x boundary value x expression form (enumerated, not sampled)"""
    out = []
    for bits in ("byte", 8, 16, 32, 64):
        b = 8 if bits == "byte" else bits
        for val in sorted({0, 1, 2**b - 1, 2**b, 2**b + 1, 2 ** (b + 1), 2**64 - 1, -1, 2**64} | ({2 ** (b + 8) - 1} if b < 56 else set())):
            for form in ("btoi", "int-literal", "sum", "if"):
                out.append({"kind": "overflow", "shape": ["uint", b], "bits": bits, "value": val, "form": form, "versions": VERSIONS[tier][:2] if tier == "quick" else VERSIONS[tier]})
    return out


def shard(tier, seedv, k, n, col: Collector):
    for idx, case in enumerate(overflow_grid(tier)):
        if idx % n != k:
            continue
        col.case()
        col.cls("kind:overflow-grid")
        for b, d in run_case(case, col):
            col.fail(b, d, case)

    def body(case):
        col.case()
        res = run_case(case, col)
        if case.get("kind") in ("overflow", "bad-copy"):
            col.cls("kind:" + case["kind"])
        else:
            s = case["shape"]
            col.cls("top:" + s[0])
            if S.nontrivial(s):
                col.nontriv(sha([s, case["value"], case["plan"]]))
            if S.is_dynamic(s):
                col.cls("dynamic")
        case.pop("_rejected", None)
        for b, d in res:
            col.fail(b, d, case)
        if not res and case.get("kind") not in ("overflow", "bad-copy") and len(col.samples) < 3 and S.nontrivial(case["shape"]):
            col.sample({"type": S.sdk_str(case["shape"]), "value": case["value"], "plan": case["plan"], "encoding": S.encode(case["shape"], S.unjson(case["shape"], case["value"])).hex()})

    hyp_run(body, case_strategy(tier), N_EX[tier], seedv, key=lambda c: [c["shape"], c.get("value"), c.get("plan"), c.get("src"), c.get("dst")], col=col)
