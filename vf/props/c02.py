"""C02 - subroutine calls behave as function calls, including recursion (differential + call-boundary invariant)."""
from __future__ import annotations

from hypothesis import strategies as st

from .. import diff
from ..avm.interp import BudgetExceeded, run_prog
from ..avm.prims import Unsupported
from ..recipe import gen, gen_sub, nodes as N
from ..recipe.eval import evaluate
from ..runner import Collector, hyp_run, sha
from ..shrink import case_shrinks
from ..teal import parser as tp

ID = "C02"
LEVEL = "exploration"
RULE = (
    "Hypothesis-generated call graphs of 1..4 routines (DAG, self recursion, mutual recursion, arbitrary), arity 0..3 "
    "(+ a fuel parameter bounding recursion), parameters by value / ScratchVar by reference, results none/uint64/bytes, "
    "scratch-backed and ABI-backed locals (frame cells under frame pointers) live across calls, Return at arbitrary "
    "statement positions incl. tail If/Else arms, call sites in statement position and nested in operands with a "
    "pending left operand; compiled at 4..6 configurations from versions 4..10 x frame_pointers {default,True,False} x "
    "scratch_slots {default,True,False}; 3 generated transaction contexts each. Oracle 1: independent evaluator with "
    "call-by-value/by-reference and per-activation locals vs reference AVM interpreter (verdict, value, ordered "
    "effects). Oracle 2 (inside the interpreter): at every retsub the stack equals the snapshot at the matching callsub "
    "minus the callee's arguments plus exactly its declared results. Oracle 3: a by-reference routine on a recursion "
    "cycle must be rejected with a PyTeal error. non-trivial = some run re-enters an active routine or reaches call "
    "depth >= 2, without failing; distinct by recipe."
)
ASSUMPTIONS = [
    "vf/avm proto/frame_dig/frame_bury/retsub follow go-algorand (results = first R frame cells)",
    "evaluator semantics of DESIGN.md section 1.7 (locals per activation, by-ref aliases the caller's variable)",
    "generator rules R1-R6 (fuel-bounded recursion, explicit slot ids only in main)",
]
SHARDS = {"quick": 16, "thorough": 16}
N_EX = {"quick": 70, "thorough": 3000}
BUDGET = {"quick": 55, "thorough": 110}
MIN_NONTRIVIAL = {"quick": 150, "thorough": 3000}


def run_case(case, col=None):
    recipe = case["recipe"]
    out = []
    if case.get("expect_reject"):
        for cfg in case["configs"]:
            oc = diff.compile_recipe(recipe, cfg)
            if oc.teal is not None and cfg["version"] >= 5:
                out.append(("byref-recursion-accepted", "cfg=%s: a ScratchVar (by-reference) parameter on a recursion cycle compiled instead of being rejected\n%s" % (cfg, diff.short_teal(oc.teal, 40))))
                break
            if col:
                col.cls("byref-recursion:rejected")
        return out
    ctxs = diff.ctx_list(case)
    evals = []
    for c in ctxs:
        try:
            evals.append(evaluate(recipe, c))
        except (BudgetExceeded, Unsupported):
            evals.append(None)
    if all(e is None for e in evals):
        if col:
            col.cls("discard:eval-budget/unsupported")
        return out
    interesting = False
    seen = {}
    for cfg in case["configs"]:
        oc = diff.compile_recipe(recipe, cfg)
        if oc.crash is not None:
            if col:
                col.cls("compile-crash(C20's business)")
            continue
        if oc.error is not None:
            if col:
                col.cls("rejected")
            continue
        body = oc.teal.split("\n", 1)[-1]
        if body in seen:
            continue
        seen[body] = cfg
        try:
            prog = tp.parse(oc.teal)
        except tp.TealSyntaxError as e:
            out.append(("unparsable", "emitted TEAL does not parse: %s" % e))
            continue
        iss = diff.unassemblable(oc.teal, cfg["version"], recipe.get("mode", "app"))
        if iss is not None:
            out.append(("unassemblable:%s" % iss.kind, "cfg=%s: the emitted program cannot be assembled: %s\n--- TEAL ---\n%s" % (diff.cfg_key(cfg), iss, diff.short_teal(oc.teal, 60))))
            continue
        if col:
            col.cls("compiled:%s" % ("proto" if any(i.op == "proto" for i in prog.instrs) else "scratch-convention"))
        sigs = diff.label_sigs(recipe, prog)
        for ci, (c, er) in enumerate(zip(ctxs, evals)):
            if er is None:
                continue
            try:
                ir = run_prog(prog, c, trace=True)
            except BudgetExceeded:
                if col:
                    col.cls("discard:interp-budget")
                continue
            except Unsupported:
                if col:
                    col.cls("discard:unsupported")
                continue
            if er.verdict != "fail" and ("reenter" in er.flags or er.max_depth >= 2):
                interesting = True
            if col:
                col.cls("verdict:" + er.verdict)
                if "reenter" in er.flags:
                    col.cls("run:re-entered a routine")
            d = diff.compare(er, ir, explicit_slots=True)
            if d is not None:
                out.append(("diff:%s" % d[0], "cfg=%s ctx#%d: %s\n--- TEAL ---\n%s" % (diff.cfg_key(cfg), ci, d[1], diff.short_teal(oc.teal, 90))))
                break
            bv = diff.boundary_violations(ir.trace, sigs)
            if bv:
                out.append(("boundary", "cfg=%s ctx#%d: %s\n--- TEAL ---\n%s" % (diff.cfg_key(cfg), ci, bv[0], diff.short_teal(oc.teal, 90))))
                break
        if out:
            break
    case["_interesting"] = interesting
    return out


def judge(case):
    return run_case(dict(case))


def shrinks(case):
    return case_shrinks(case)


def _configs(draw, recipe):
    lv = max(4, recipe.get("level", 4))
    from ..recipe import legal

    lo = max(lv, legal.min_version(recipe))
    vs = sorted({lo, min(lo + 1, 10), draw(st.integers(lo, 10)), 8, 10} - {v for v in (8, 10) if v < lo})
    cfgs = []
    for v in vs:
        cfg = {"version": v}
        k = draw(st.integers(0, 5))
        if k == 1:
            cfg["frame_pointers"] = False
        elif k == 2 and v >= 8:
            cfg["frame_pointers"] = True
        if draw(st.integers(0, 3)) == 0:
            cfg["scratch_slots"] = draw(st.booleans())
        cfgs.append(cfg)
    # always: both conventions at v8+
    cfgs.append({"version": 9, "frame_pointers": False} if lo <= 9 else {"version": 10, "frame_pointers": False})
    return cfgs


@st.composite
def byref_cycle_recipe(draw):
    """a routine with a ScratchVar parameter that (guarded by fuel) calls itself or a partner that calls back"""
    mutual = draw(st.booleans())
    r0 = {"name": "refrec0", "kind": "sub", "params": [["fuel", "U", "val"], ["x", "U", "ref"]], "ret": "N", "locals": {},
          "body": ["seq", [["store", "x", ["nary", "Add", [["load", "x"], ["int", 1]]]],
                           ["if", ["bin", "Gt", ["param", "fuel"], ["int", 0]], ["callN", 1 if mutual else 0, [["bin", "Minus", ["param", "fuel"], ["int", 1]], ["ref", "x"]] if not mutual else [["bin", "Minus", ["param", "fuel"], ["int", 1]]]], None, "fn"]]]}
    routines = [r0]
    if mutual:
        routines.append({"name": "partner1", "kind": "sub", "params": [["fuel", "U", "val"]], "ret": "N", "locals": {"w": {"t": "U", "slot": None}},
                         "body": ["seq", [["store", "w", ["int", 0]], ["callN", 0, [["param", "fuel"], ["ref", "w"]]]]]})
    main = ["seq", [["store", "g", ["int", 0]], ["callN", 0, [["int", draw(st.integers(0, 2))], ["ref", "g"]]], ["load", "g"]]]
    return {"mode": "app", "level": 5, "vars": {"g": {"t": "U", "slot": None}}, "routines": routines, "main": main}


@st.composite
def byref_chain_recipe(draw):
    """a ScratchVar handed on by reference through 2..3 routines (each level reads and writes it before and after the
    inner call), mixed with by-value parameters; main observes the variable afterwards"""
    depth = draw(st.integers(2, 3))
    mode = "app"
    routines = []
    for lv in range(depth):
        t = "U"
        params = [["x", t, "ref"]]
        if draw(st.booleans()):
            params.insert(draw(st.integers(0, 1)), ["k", "U", "val"])
        body = []
        c1, c2 = draw(st.integers(1, 9)), draw(st.integers(1, 9))
        body.append(["store", "x", ["nary", "Add", [["nary", "Mul", [["load", "x"], ["int", 10]]], ["int", c1]]]])
        if lv + 1 < depth:
            inner_args = []
            for p in (["x", "U", "ref"], ["k", "U", "val"]):
                pass
            body.append(["__call_next__"])
        if any(p[0] == "k" for p in params) and draw(st.booleans()):
            body.append(["store", "x", ["nary", "Add", [["load", "x"], ["param", "k"]]]])
        body.append(["log", ["un", "Itob", ["load", "x"]]])
        ret = draw(st.sampled_from(["N", "U"]))
        if ret == "U":
            body.append(["nary", "Add", [["load", "x"], ["int", c2]]])
        routines.append({"name": "lvl%d" % lv, "kind": "sub", "params": params, "ret": ret, "locals": {}, "body": ["seq", body]})
    # wire the calls
    for lv in range(depth - 1):
        nxt = routines[lv + 1]
        args = [["ref", "x"] if p[2] == "ref" else ["int", draw(st.integers(0, 5))] for p in nxt["params"]]
        call = ["callN", lv + 1, args] if nxt["ret"] == "N" else ["pop", ["call", lv + 1, args]]
        b = routines[lv]["body"][1]
        b[b.index(["__call_next__"])] = call
    slot = draw(st.sampled_from([None, None, 7, 200]))
    top = routines[0]
    args = [["ref", "g"] if p[2] == "ref" else ["int", draw(st.integers(0, 5))] for p in top["params"]]
    call = ["callN", 0, args] if top["ret"] == "N" else ["log", ["un", "Itob", ["call", 0, args]]]
    main = ["seq", [["store", "g", ["int", draw(st.integers(0, 3))]], ["store", "h", ["int", 77]], call, ["log", ["un", "Itob", ["load", "g"]]], ["log", ["un", "Itob", ["load", "h"]]], ["load", "g"]]]
    return {"mode": mode, "level": 5, "vars": {"g": {"t": "U", "slot": slot}, "h": {"t": "U", "slot": None}}, "routines": routines, "main": main}


@st.composite
def case_strategy(draw, tier):
    if draw(st.integers(0, 11)) == 0:
        recipe = draw(byref_chain_recipe())
        ctxs = [draw(gen.one_context("app"))]
        cfgs = [{"version": v} for v in (5, 6, 8, 10)] + [{"version": 10, "frame_pointers": False}, {"version": 9, "scratch_slots": False}]
        return {"recipe": recipe, "ctxs": [c.to_json() for c in ctxs], "configs": cfgs}
    if draw(st.integers(0, 24)) == 0:
        recipe = draw(byref_cycle_recipe())
        return {"recipe": recipe, "ctxs": [], "configs": [{"version": v} for v in (5, 7, 8, 10)] + [{"version": 9, "frame_pointers": False}], "expect_reject": True}
    recipe = draw(gen_sub.sub_recipe(max_budget=BUDGET[tier]))
    ctxs = [draw(gen.one_context(recipe["mode"])) for _ in range(3)]
    return {"recipe": recipe, "ctxs": [c.to_json() for c in ctxs], "configs": _configs(draw, recipe)}


def shard(tier, seedv, k, n, col: Collector):
    def body(case):
        col.case()
        res = run_case(case, col)
        recipe = case["recipe"]
        if case.pop("_interesting", False):
            col.nontriv(sha(recipe))
        if recipe.get("f6_guards"):
            col.cls("excluded-by-construction:F6-guard-loads", recipe["f6_guards"])
        kinds = set()
        for r in recipe.get("routines", []):
            for p in r["params"]:
                if p[2] == "ref":
                    kinds.add("has:by-ref-param")
            if any(d.get("kind") == "abi" for d in r.get("locals", {}).values()):
                kinds.add("has:abi-local")
            kinds.add("ret:" + r["ret"])
        for kd in kinds:
            col.cls(kd)
        for b, d in res:
            col.fail(b, d, case)
        if not res and len(col.samples) < 3 and len(recipe.get("routines", [])) >= 2:
            col.sample({"routines": [{"name": r["name"], "params": r["params"], "ret": r["ret"], "body": r["body"]} for r in recipe["routines"][:2]], "main": recipe["main"]})

    hyp_run(body, case_strategy(tier), N_EX[tier], seedv, key=lambda c: c["recipe"], col=col)
