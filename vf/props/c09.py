"""C09 - routed methods receive ARC-4 arguments and log ARC-4 results (client side: algosdk AtomicTransactionComposer)."""
# NOTE: no `from __future__ import annotations`
import base64
import json

from hypothesis import strategies as st

from .. import diff
from ..abi import shapes as S
from ..avm.context import Ctx
from ..avm.interp import BudgetExceeded, run_prog
from ..avm.prims import Unsupported
from ..runner import Collector, hyp_run, sha
from ..teal import parser as tp

ID = "C09"
LEVEL = "exploration"
RULE = (
    "Method signatures with 0..20 parameters (dense around 13..17 to straddle the 15-argument cutoff) of ARC-4 value "
    "types (scalars, strings, small arrays/tuples), transaction types (txn/pay/keyreg/acfg/axfer/afrz/appl at any "
    "position) and reference types (account/asset/application); void or non-void results; argument values generated per "
    "type. The CLIENT side is algosdk's AtomicTransactionComposer.add_method_call(...).build_group() (offline, fixed key) - "
    "the independent ARC-4 encoder - converted into an interpreter context. The handler logs tag_i || encoding of every "
    "parameter it received (address / asset id / app id for references; group index, type and amount for transactions) "
    "and sets its output from an argument or a constant. Versions 6..10, both glue flavours, assemble_constants off/on; "
    "registration histories: override names, one handler under two names, a refused duplicate registration that the "
    "caller catches before compiling. Oracle: the logs equal the "
    "expected per-parameter encodings in order, followed by exactly one 0x151f7c75 || encode(result) (none for void), "
    "verdict approve; a wrong transaction type at a typed position makes the call fail; the returned ABI contract lists "
    "exactly the registered signatures and their selectors are the `method` literals of the approval program. "
    "non-trivial = >= 2 parameters of different kinds, or > 15 non-transaction parameters, or a transaction parameter "
    "not in last position; distinct by (signature, values)."
)
ASSUMPTIONS = ["algosdk AtomicTransactionComposer implements the ARC-4 calling convention", "vf/avm semantics"]
SHARDS = {"quick": 16, "thorough": 16}
N_EX = {"quick": 40, "thorough": 1500}
MIN_NONTRIVIAL = {"quick": 150, "thorough": 3000}
VERSIONS = {"quick": [6, 8, 10], "thorough": [6, 7, 8, 9, 10]}
RETURN_PREFIX = bytes.fromhex("151f7c75")
TXN_TYPES = ["txn", "pay", "keyreg", "acfg", "axfer", "afrz", "appl"]
TYPE_ENUM = {"pay": 1, "keyreg": 2, "acfg": 3, "axfer": 4, "afrz": 5, "appl": 6}
ADDRS = [bytes([i + 1]) * 32 for i in range(4)]

_KEY = None


def client_key():
    global _KEY
    if _KEY is None:
        import nacl.signing
        from algosdk import account

        sk = nacl.signing.SigningKey(bytes([1]) * 32)
        priv = base64.b64encode(sk.encode() + sk.verify_key.encode()).decode()
        _KEY = (priv, account.address_from_private_key(priv))
    return _KEY


def sig_of(m) -> str:
    ps = []
    for p in m["params"]:
        ps.append(S.sdk_str(p["shape"]) if p["k"] == "abi" else p["t"])
    return "%s(%s)%s" % (m.get("override") or m["name"], ",".join(ps), S.sdk_str(m["ret"]) if m.get("ret") else "void")


def make_handler(pt, m):
    g = {"pt": pt, "Expr": pt.Expr}
    params = []
    logs = []
    abi = pt.abi
    txn_ann = {"txn": abi.Transaction, "pay": abi.PaymentTransaction, "keyreg": abi.KeyRegisterTransaction, "acfg": abi.AssetConfigTransaction,
               "axfer": abi.AssetTransferTransaction, "afrz": abi.AssetFreezeTransaction, "appl": abi.ApplicationCallTransaction}
    ref_ann = {"account": abi.Account, "asset": abi.Asset, "application": abi.Application}
    for i, p in enumerate(m["params"]):
        tagb = ("T%02d:" % i).encode()
        g["TAG%d" % i] = tagb
        if p["k"] == "abi":
            g["A%d" % i] = S.pt_spec(pt, p["shape"]).annotation_type()
            logs.append("pt.Log(pt.Concat(pt.Bytes(TAG%d), a%d.encode()))" % (i, i))
        elif p["k"] == "txn":
            g["A%d" % i] = txn_ann[p["t"]]
            logs.append("pt.Log(pt.Concat(pt.Bytes(TAG%d), pt.Itob(a%d.get().group_index()), pt.Itob(a%d.get().type_enum()), pt.Itob(a%d.get().amount()), a%d.get().sender()))" % (i, i, i, i, i))
        else:
            g["A%d" % i] = ref_ann[p["t"]]
            acc = {"account": "a%d.address()", "asset": "pt.Itob(a%d.asset_id())", "application": "pt.Itob(a%d.application_id())"}[p["t"]] % i
            logs.append("pt.Log(pt.Concat(pt.Bytes(TAG%d), %s))" % (i, acc))
        params.append("a%d: A%d" % (i, i))
    if m.get("ret"):
        g["TR"] = S.pt_spec(pt, m["ret"]).annotation_type()
        params.append("*")
        params.append("output: TR")
        src_i = m.get("ret_from")
        if src_i is not None:
            logs.append("output.decode(a%d.encode())" % src_i)
        else:
            g["RETBYTES"] = S.encode(m["ret"], S.unjson(m["ret"], m["ret_value"]))
            logs.append("output.decode(pt.Bytes(RETBYTES))")
    body = "pt.Seq(%s)" % ", ".join(logs) if logs else "pt.Seq()"
    src = "def %s(%s) -> Expr:\n    return %s\n" % (m["name"], ", ".join(params), body)
    exec(compile(src, "<c09-handler>", "exec", dont_inherit=True), g)
    return pt.ABIReturnSubroutine(g[m["name"]])


def compile_router(m, version, fp=None, assemble=False):
    import pyteal as pt

    diff.reset_pyteal_state()
    try:
        r = pt.Router("c09")
        h = make_handler(pt, m)
        r.add_method_handler(h, overriding_name=m.get("override"), method_config=pt.MethodConfig(no_op=pt.CallConfig.CALL))
        if m.get("alias"):
            # the same handler object registered a second time under another name
            r.add_method_handler(h, overriding_name=m["alias"], method_config=pt.MethodConfig(no_op=pt.CallConfig.CALL))
        if m.get("redo"):
            # a registration that PyTeal refuses (same signature again, from a new handler object); the caller catches the
            # refusal and carries on - the refused registration must leave no trace in program or contract
            try:
                r.add_method_handler(make_handler(pt, m), overriding_name=m.get("override"), method_config=pt.MethodConfig(no_op=pt.CallConfig.CALL))
                return "redo-accepted", None, None
            except pt.TealInputError:
                pass
        # a second, unrelated method so that dispatch is not trivial
        g = {"pt": pt, "Expr": pt.Expr}
        exec(compile("def other() -> Expr:\n    return pt.Log(pt.Bytes(b'OTHER'))\n", "<c09>", "exec", dont_inherit=True), g)
        r.add_method_handler(pt.ABIReturnSubroutine(g["other"]))
        opt = pt.OptimizeOptions(frame_pointers=fp) if fp is not None else None
        a, c, contract = r.compile_program(version=version, optimize=opt, assemble_constants=bool(assemble))
        return "ok", a, contract
    except diff.pyteal_errors() as e:
        return "refused", e, None
    except Exception as e:  # noqa
        return "crash", e, None
    finally:
        diff.reset_pyteal_state()


def build_client_group(m, values):
    """-> list of txn field dicts (interpreter context group), index of the app call"""
    from algosdk import atomic_transaction_composer as A, transaction, abi as sabi, encoding

    priv, addr = client_key()
    sp = transaction.SuggestedParams(fee=1000, first=1, last=1000, gh=base64.b64encode(bytes(32)).decode(), flat_fee=True)
    signer = A.AccountTransactionSigner(priv)
    method = sabi.Method.from_signature(sig_of(m))
    args = []
    for p, v in zip(m["params"], values):
        if p["k"] == "abi":
            args.append(S.sdk_value(p["shape"], S.unjson(p["shape"], v)))
        elif p["k"] == "ref":
            args.append(encoding.encode_address(ADDRS[v]) if p["t"] == "account" else v)
        else:
            args.append(A.TransactionWithSigner(make_txn(v, addr, sp), signer))
    atc = A.AtomicTransactionComposer()
    atc.add_method_call(1001, method, addr, sp, signer, method_args=args)
    group = [t.txn for t in atc.build_group()]
    out = []
    for t in group:
        out.append(txn_fields(t))
    return out, len(out) - 1


def make_txn(v, addr, sp):
    from algosdk import transaction, encoding

    rcv = encoding.encode_address(ADDRS[v.get("rcv", 0)])
    t = v["type"]
    if t == "pay":
        return transaction.PaymentTxn(addr, sp, rcv, v.get("amount", 0))
    if t == "axfer":
        return transaction.AssetTransferTxn(addr, sp, rcv, v.get("amount", 0), 5005)
    if t == "acfg":
        return transaction.AssetConfigTxn(addr, sp, index=5005, manager=rcv, strict_empty_address_check=False)
    if t == "afrz":
        return transaction.AssetFreezeTxn(addr, sp, 5005, rcv, True)
    if t == "keyreg":
        return transaction.KeyregOfflineTxn(addr, sp) if hasattr(transaction, "KeyregOfflineTxn") else transaction.KeyregTxn(addr, sp, None, None, 0, 0, 0)
    return transaction.ApplicationNoOpTxn(addr, sp, 2002)


def txn_fields(t):
    from algosdk import encoding, transaction

    d = {"Sender": encoding.decode_address(t.sender), "Fee": t.fee, "FirstValid": t.first_valid_round, "LastValid": t.last_valid_round}
    name = type(t).__name__
    if isinstance(t, transaction.PaymentTxn):
        d.update(TypeEnum=1, Amount=t.amt, Receiver=encoding.decode_address(t.receiver))
    elif isinstance(t, transaction.KeyregTxn):
        d.update(TypeEnum=2)
    elif isinstance(t, transaction.AssetConfigTxn):
        d.update(TypeEnum=3, ConfigAsset=t.index or 0)
    elif isinstance(t, transaction.AssetTransferTxn):
        d.update(TypeEnum=4, XferAsset=t.index, AssetAmount=t.amount, AssetReceiver=encoding.decode_address(t.receiver))
    elif isinstance(t, transaction.AssetFreezeTxn):
        d.update(TypeEnum=5, FreezeAsset=t.index)
    elif isinstance(t, transaction.ApplicationCallTxn):
        d.update(TypeEnum=6, ApplicationID=t.index, OnCompletion=int(t.on_complete), ApplicationArgs=[bytes(a) for a in (t.app_args or [])],
                 Accounts=[encoding.decode_address(a) for a in (t.accounts or [])], Assets=list(t.foreign_assets or []), Applications=list(t.foreign_apps or []))
    else:
        raise ValueError(name)
    return d


def expected_logs(m, values, group):
    _priv, addr = client_key()
    from algosdk import encoding

    sender = encoding.decode_address(addr)
    out = []
    ntx = sum(1 for p in m["params"] if p["k"] == "txn")
    seen_tx = 0
    for i, (p, v) in enumerate(zip(m["params"], values)):
        tagb = ("T%02d:" % i).encode()
        if p["k"] == "abi":
            out.append(tagb + S.encode(p["shape"], S.unjson(p["shape"], v)))
        elif p["k"] == "ref":
            if p["t"] == "account":
                out.append(tagb + ADDRS[v])
            else:
                out.append(tagb + int(v).to_bytes(8, "big"))
        else:
            gi = seen_tx  # transaction arguments are the immediately preceding group members, in order
            seen_tx += 1
            f = group[gi]
            out.append(tagb + gi.to_bytes(8, "big") + int(f["TypeEnum"]).to_bytes(8, "big") + int(f.get("Amount", 0)).to_bytes(8, "big") + sender)
    if m.get("ret"):
        if m.get("ret_from") is not None:
            p = m["params"][m["ret_from"]]
            rv = S.encode(p["shape"], S.unjson(p["shape"], values[m["ret_from"]]))
        else:
            rv = S.encode(m["ret"], S.unjson(m["ret"], m["ret_value"]))
        out.append(RETURN_PREFIX + rv)
    return out


def run_case(case, col=None):
    m, values = case["method"], case["values"]
    out = []
    try:
        group, idx = build_client_group(m, values)
    except Exception as e:  # noqa  (the reference client refuses the call: not a case)
        if col:
            col.cls("discard:client-refused:%s" % type(e).__name__)
        return out
    want = expected_logs(m, values, group)
    if sum(len(x) for x in want) > 1000 or len(want) > 30:
        if col:
            col.cls("discard:log-limits")
        return out
    for cfg in case["configs"]:
        kind, approval, contract = compile_router(m, cfg["version"], cfg.get("fp"), cfg.get("assemble"))
        if kind == "redo-accepted":
            out.append(("duplicate-registration-accepted", "cfg=%s: registering the signature %s a second time was accepted" % (cfg, sig_of(m))))
            break
        if kind == "refused":
            out.append(("router-refused", "cfg=%s: %s: %s for %s" % (cfg, type(approval).__name__, str(approval)[:200], sig_of(m))))
            break
        if kind == "crash":
            if isinstance(approval, RecursionError):
                continue
            out.append(("router-crash:%s" % type(approval).__name__, "cfg=%s: %s for %s" % (cfg, str(approval)[:200], sig_of(m))))
            break
        iss = diff.static_issue(approval, cfg["version"])
        if iss is not None:
            out.append(("illegal-teal:%s" % iss.kind, "cfg=%s: %s" % (cfg, iss)))
            break
        prog = tp.parse(approval)
        # contract description
        sigs = sorted(x.get_signature() for x in contract.methods)
        reg = [sig_of(m), "other()void"] + ([sig_of(dict(m, override=m["alias"]))] if m.get("alias") else [])
        if sigs != sorted(reg):
            out.append(("contract-methods", "cfg=%s: contract lists %s, registered %s" % (cfg, sigs, sorted(reg))))
            break
        sels = sorted(x.get_selector().hex() for x in contract.methods)
        if cfg.get("assemble"):
            # method literals are loaded from the constant block / pushbytes: the 4-byte constants that are the sha512/256
            # prefix of a registered signature (compared as a set with what the contract lists)
            consts = set(bytes(c).hex() for c in (prog.bytecblock or []) if isinstance(c, (bytes, bytearray)))
            consts |= set(bytes(i.const).hex() for i in prog.instrs if i.op in ("pushbytes", "byte", "method") and isinstance(i.const, (bytes, bytearray)))
            lits = sorted(x for x in consts if x in sels)
        else:
            lits = sorted(bytes(i.const).hex() for i in prog.instrs if i.op == "method")
        if lits != sels:
            out.append(("contract-selectors", "cfg=%s: contract selectors %s, program dispatches on %s" % (cfg, sels, lits)))
            break
        ctx = Ctx(group=group, group_index=idx, app_id=1001)
        try:
            r = run_prog(prog, ctx)
        except (BudgetExceeded, Unsupported) as e:
            if col:
                col.cls("discard:%s" % type(e).__name__)
            continue
        if col:
            col.cls("executed")
        if r.verdict != "approve":
            out.append(("call-not-approved", "cfg=%s: %s called with %s: %s\n%s" % (cfg, sig_of(m), json.dumps(values)[:300], diff.describe_result(r), diff.short_teal(approval, 80))))
            break
        logs = [e[1] for e in r.events if e[0] == "log"]
        if logs != want:
            k = 0
            while k < min(len(logs), len(want)) and logs[k] == want[k]:
                k += 1
            out.append(("argument-or-result", "cfg=%s: %s: log #%d is %s, expected %s (logs %d, expected %d)\nvalues=%s\n%s" % (
                cfg, sig_of(m), k, logs[k].hex() if k < len(logs) else None, want[k].hex() if k < len(want) else None, len(logs), len(want), json.dumps(values)[:400], diff.short_teal(approval, 80))))
            break
        # negative: wrong transaction type at a typed position must fail
        typed = [i for i, p in enumerate(m["params"]) if p["k"] == "txn" and p["t"] != "txn"]
        if typed:
            pos = [i for i, p in enumerate(m["params"]) if p["k"] == "txn"].index(typed[0])
            g2 = [dict(t) for t in group]
            g2[pos]["TypeEnum"] = 6 if g2[pos]["TypeEnum"] != 6 else 1
            r2 = run_prog(prog, Ctx(group=g2, group_index=idx, app_id=1001))
            if r2.verdict == "approve":
                out.append(("txn-type-not-enforced", "cfg=%s: %s approved although group member %d has type %d" % (cfg, sig_of(m), pos, g2[pos]["TypeEnum"])))
                break
            if col:
                col.cls("negative:wrong-txn-type-rejected")
    return out


def judge(case):
    return run_case(case)


def shrinks(case):
    m, values = case["method"], case["values"]
    if len(case["configs"]) > 1:
        for cfg in case["configs"]:
            yield dict(case, configs=[cfg])
    for i in range(len(m["params"])):
        if m.get("ret_from") == i:
            continue
        m2 = dict(m, params=m["params"][:i] + m["params"][i + 1:])
        if m.get("ret_from") is not None and m["ret_from"] > i:
            m2["ret_from"] = m["ret_from"] - 1
        yield dict(case, method=m2, values=values[:i] + values[i + 1:])
    if m.get("ret"):
        yield dict(case, method={k: v for k, v in m.items() if k not in ("ret", "ret_from", "ret_value")})
    if m.get("override"):
        yield dict(case, method={k: v for k, v in m.items() if k != "override"})
    if m.get("alias"):
        yield dict(case, method={k: v for k, v in m.items() if k != "alias"})


SMALL = [["uint", 64], ["uint", 8], ["uint", 16], ["uint", 32], ["bool"], ["byte"], ["address"], ["string"], ["dbytes"], ["sbytes", 4],
         ["sa", ["uint", 16], 2], ["da", ["uint", 8]], ["tuple", [["bool"], ["uint", 8]]], ["tuple", [["string"], ["uint", 64]]], ["da", ["string"]], ["sa", ["bool"], 9]]


@st.composite
def case_strategy(draw, tier):
    n = draw(st.sampled_from([0, 1, 2, 3, 5, 8, 13, 14, 15, 15, 16, 16, 17, 18, 20]))
    params = []
    values = []
    ntx = 0
    for i in range(n):
        k = draw(st.integers(0, 9))
        if k == 0 and ntx < 3:
            t = draw(st.sampled_from(TXN_TYPES))
            params.append({"k": "txn", "t": t})
            real = t if t != "txn" else draw(st.sampled_from(TXN_TYPES[1:]))
            values.append({"type": real, "amount": draw(st.integers(0, 1000)), "rcv": draw(st.integers(0, 3))})
            ntx += 1
        elif k == 1:
            t = draw(st.sampled_from(["account", "asset", "application"]))
            params.append({"k": "ref", "t": t})
            values.append(draw(st.integers(0, 3)) if t == "account" else draw(st.sampled_from([5005, 6006, 7007] if t == "asset" else [2002, 3003, 1001])))
        else:
            s = draw(st.sampled_from(SMALL)) if n > 8 or draw(st.booleans()) else draw(S.shape_strategy(max_depth=2))
            if not S.annotatable(s):
                s = draw(st.sampled_from(SMALL))  # generic tuples of more than 5 members cannot be written as an annotation
            params.append({"k": "abi", "shape": s})
            values.append(S.jsonable(s, draw(S.value_strategy(s))))
    m = {"name": "meth", "params": params}
    if draw(st.integers(0, 5)) == 0:
        m["override"] = draw(st.sampled_from(["renamed", "do_it", "x"]))
    if draw(st.integers(0, 5)) == 0:
        m["alias"] = draw(st.sampled_from(["alias_a", "send", "y"]))
    if draw(st.integers(0, 5)) == 0:
        m["redo"] = True
    if draw(st.integers(0, 2)) > 0:
        abi_i = [i for i, p in enumerate(params) if p["k"] == "abi"]
        if abi_i and draw(st.booleans()):
            i = draw(st.sampled_from(abi_i))
            m["ret"] = params[i]["shape"]
            m["ret_from"] = i
        else:
            s = draw(st.sampled_from(SMALL))
            m["ret"] = s
            m["ret_value"] = S.jsonable(s, draw(S.value_strategy(s)))
    cfgs = []
    for v in VERSIONS[tier]:
        cfg = {"version": v}
        if v >= 8 and draw(st.integers(0, 3)) == 0:
            cfg["fp"] = False
        if draw(st.integers(0, 3)) == 0:
            cfg["assemble"] = True
        cfgs.append(cfg)
    return {"method": m, "values": values, "configs": cfgs}


def shard(tier, seedv, k, n, col: Collector):
    def body(case):
        col.case()
        m = case["method"]
        res = run_case(case, col)
        kinds = {p["k"] for p in m["params"]}
        nplain = sum(1 for p in m["params"] if p["k"] != "txn")
        tx_not_last = any(p["k"] == "txn" for p in m["params"][:-1])
        if len(kinds) >= 2 or nplain > 15 or tx_not_last:
            col.nontriv(sha([m, case["values"]]))
        col.cls("params:%s" % ("0" if not m["params"] else "1-8" if len(m["params"]) <= 8 else "9-14" if len(m["params"]) <= 14 else "15" if len(m["params"]) == 15 else "16+"))
        if nplain > 15:
            col.cls("plain-args>15 (tuple packing)")
        for b, d in res:
            col.fail(b, d, case)
        if not res and len(col.samples) < 3 and len(kinds) >= 2:
            col.sample({"signature": sig_of(m), "values": case["values"]})

    hyp_run(body, case_strategy(tier), N_EX[tier], seedv, key=lambda c: [c["method"], c["values"]], col=col)
