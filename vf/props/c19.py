"""C19 - ABI assignability implies identical encoding (exhaustive bounded universe + perturbed deeper pairs)."""
# NOTE: no `from __future__ import annotations`
import itertools
import json

from hypothesis import strategies as st

from .. import diff
from ..abi import shapes as S
from ..runner import Collector, hyp_run, sha

ID = "C19"
LEVEL = "exploration"
EXHAUSTIVE = False  # the bounded universe part is exhaustive (coverage.universe_exhaustive), the perturbation part is sampled
RULE = (
    "(1) ALL ordered pairs over a bounded universe: every type of depth <= 2 over the alphabet {bool, byte, uint8, uint16, "
    "uint64, address, string, byte[] (both spellings), byte[4]/byte[32] (both spellings)}: T[2], T[32], T[], tuples and "
    "NamedTuples of <= 3 members over a 6-type sub-alphabet, plus the 7 transaction and 3 reference types - enumerated "
    "exhaustively, split over the shards. (2) Hypothesis: deeper random types paired with a structurally perturbed copy "
    "(one leaf respelled / widened / a member dropped, added or reordered / static length changed / static<->dynamic / "
    "tuple<->named). Oracle: type_spec_is_assignable_to(a, b) => layout(a) == layout(b), where layout normalises "
    "byte->uint8, address->uint8[32], string->uint8[], StaticBytes/DynamicBytes->uint8 arrays, NamedTuple->tuple "
    "(transaction types: equal or b is the generic txn; reference types: equal); assignable pairs additionally encode "
    "sample values identically under both algosdk types. For a sample of pairs with different layouts, passing an `a` "
    "where a subroutine declares `b` (and in InnerTxnBuilder.MethodCall) must raise. non-trivial = the two types differ "
    "in at least one position; distinct by ordered pair."
)
ASSUMPTIONS = ["algosdk.abi type strings define the ARC-4 layout", "same-layout pairs may be refused (the relation may be narrower)"]
SHARDS = {"quick": 16, "thorough": 16}
N_EX = {"quick": 150, "thorough": 6000}
MIN_NONTRIVIAL = {"quick": 5000, "thorough": 20000}

TXN = ["txn", "pay", "keyreg", "acfg", "axfer", "afrz", "appl"]
REF = ["account", "asset", "application"]


def layout(s) -> str:
    t = s[0]
    if t in ("txn", "ref"):
        return "%s:%s" % (t, s[1])
    if t == "byte":
        return "uint8"
    if t == "uint":
        return "uint%d" % s[1]
    if t == "bool":
        return "bool"
    if t == "address":
        return "uint8[32]"
    if t in ("string", "dbytes"):
        return "uint8[]"
    if t == "sbytes":
        return "uint8[%d]" % s[1]
    if t == "sa":
        return "%s[%d]" % (layout(s[1]), s[2])
    if t == "da":
        return "%s[]" % layout(s[1])
    return "(%s)" % ",".join(layout(m) for m in S.members(s))


def spec_of(pt, s):
    abi = pt.abi
    if s[0] == "txn":
        return {"txn": abi.TransactionTypeSpec, "pay": abi.PaymentTransactionTypeSpec, "keyreg": abi.KeyRegisterTransactionTypeSpec,
                "acfg": abi.AssetConfigTransactionTypeSpec, "axfer": abi.AssetTransferTransactionTypeSpec,
                "afrz": abi.AssetFreezeTransactionTypeSpec, "appl": abi.ApplicationCallTransactionTypeSpec}[s[1]]()
    if s[0] == "ref":
        return {"account": abi.AccountTypeSpec, "asset": abi.AssetTypeSpec, "application": abi.ApplicationTypeSpec}[s[1]]()
    return S.pt_spec(pt, s)


def compatible(a, b) -> bool:
    """what the property allows an assignable pair to look like"""
    if a[0] == "txn" or b[0] == "txn":
        return a[0] == b[0] == "txn" and (a[1] == b[1] or b[1] == "txn")
    if a[0] == "ref" or b[0] == "ref":
        return a == b
    return layout(a) == layout(b)


def universe():
    d0 = [["bool"], ["byte"], ["uint", 8], ["uint", 16], ["uint", 64], ["address"], ["string"], ["dbytes"], ["da", ["byte"]], ["sbytes", 4], ["sbytes", 32], ["sa", ["byte"], 4], ["sa", ["byte"], 32], ["sa", ["uint", 8], 32]]
    sub = [["bool"], ["byte"], ["uint", 8], ["uint", 64], ["address"], ["string"]]
    out = list(d0)
    for e in d0:
        out.append(["sa", e, 2])
        out.append(["sa", e, 32])
        out.append(["da", e])
    names = ["a", "b", "c"]
    for k in range(0, 4):
        for combo in itertools.product(sub, repeat=k):
            out.append(["tuple", [list(c) for c in combo]])
            if 1 <= k <= 2:
                out.append(["named", [[names[i], list(c)] for i, c in enumerate(combo)]])
                out.append(["named", [[names[::-1][i], list(c)] for i, c in enumerate(combo)]])
    out += [["txn", t] for t in TXN] + [["ref", r] for r in REF]
    # dedupe
    seen = set()
    uniq = []
    for s in out:
        k = json.dumps(s)
        if k not in seen:
            seen.add(k)
            uniq.append(s)
    return uniq


def judge_pair(a, b, deep=False):
    import pyteal as pt

    out = []
    sa, sb = spec_of(pt, a), spec_of(pt, b)
    try:
        from pyteal.ast.abi.util import type_spec_is_assignable_to

        res = type_spec_is_assignable_to(sa, sb)
    except Exception as e:  # noqa
        return [("assignable-crash:%s" % type(e).__name__, "type_spec_is_assignable_to(%s, %s) raised %r" % (sa, sb, e))], None
    if res and not compatible(a, b):
        out.append(("assignable-different-layout", "type_spec_is_assignable_to(%s, %s) is True but the ARC-4 layouts differ: %s vs %s" % (sa, sb, layout(a), layout(b))))
    return out, res


def check_call_sites(a, b):
    """layouts differ => passing an `a` where `b` is declared must raise (Subroutine argument, MethodCall argument)"""
    import pyteal as pt

    out = []
    sa, sb = spec_of(pt, a), spec_of(pt, b)
    if a[0] in ("txn",) or b[0] in ("txn",):
        return out
    # subroutine with a parameter of type b called with an instance of a
    try:
        ann = sb.annotation_type()
    except Exception:  # noqa  (tuples of more than 5 members have no annotation)
        return out
    src = "def fn(x: T) -> Expr:\n    return pt.Pop(pt.Len(x.encode())) if not isinstance(x, pt.abi.ReferenceType) else pt.Pop(x.referenced_index())\n"
    g = {"T": ann, "Expr": pt.Expr, "pt": pt}
    exec(compile(src, "<c19>", "exec", dont_inherit=True), g)
    try:
        diff.reset_pyteal_state()
        f = pt.Subroutine(pt.TealType.none)(g["fn"])
        inst = sa.new_instance()
        f(inst)
        out.append(("call-accepts-different-layout", "a subroutine declaring a parameter of type %s accepted an argument of type %s (layouts %s vs %s)" % (sb, sa, layout(b), layout(a))))
    except diff.pyteal_errors():
        pass
    except Exception as e:  # noqa
        out.append(("call-crash:%s" % type(e).__name__, "subroutine(%s) called with %s raised %r" % (sb, sa, e)))
    finally:
        diff.reset_pyteal_state()
    if a[0] != "ref" and b[0] != "ref":
        try:
            inst = sa.new_instance()
            pt.InnerTxnBuilder.MethodCall(app_id=pt.Int(1), method_signature="m(%s)void" % str(sb), args=[inst])
            out.append(("methodcall-accepts-different-layout", "MethodCall with signature m(%s)void accepted an argument of type %s" % (sb, sa)))
        except diff.pyteal_errors():
            pass
        except Exception as e:  # noqa
            out.append(("methodcall-crash:%s" % type(e).__name__, "MethodCall m(%s)void with %s raised %r" % (sb, sa, e)))
        finally:
            diff.reset_pyteal_state()
    return out


def check_store_into(a, b):
    """the result of an ABIReturnSubroutine returning `a` stored into a variable of a differently laid out type `b` must
    raise - from an ordinary caller, and from inside the (recursive) routine itself, where its declaration is still being
    built; compiled without and with frame pointers"""
    import pyteal as pt

    out = []
    sa, sb = spec_of(pt, a), spec_of(pt, b)
    try:
        ann = sa.annotation_type()
    except Exception:  # noqa
        return out
    for where in ("caller", "recursive"):
        for version in (6, 8):
            try:
                diff.reset_pyteal_state()
                ref = []

                def inner(n, output, where=where):
                    vb = sb.new_instance()
                    rec = pt.If(n.get() > pt.Int(0)).Then(pt.Seq(n.set(n.get() - pt.Int(1)), ref[0](n).store_into(vb if where == "recursive" else sa.new_instance())))
                    return pt.Seq(rec, output.decode(pt.Bytes(b"")))

                g = {"TA": ann, "Expr": pt.Expr, "pt": pt, "inner": inner}
                exec(compile("def fn(n: pt.abi.Uint64, *, output: TA) -> Expr:\n    return inner(n, output)\n", "<c19>", "exec", dont_inherit=True), g)
                f = pt.ABIReturnSubroutine(g["fn"])
                ref.append(f)
                x = pt.abi.Uint64()
                dst = sb.new_instance() if where == "caller" else sa.new_instance()
                prog = pt.Seq(x.set(pt.Int(2)), f(x).store_into(dst), pt.Int(1))
                pt.compileTeal(prog, pt.Mode.Application, version=version)
                out.append(("store_into-accepts-different-layout", "v%d: the %s result of an ABIReturnSubroutine was stored into a %s variable (%s; layouts %s vs %s) without an error" % (
                    version, sa, sb, "inside the recursive routine itself" if where == "recursive" else "in the caller", layout(a), layout(b))))
                return out
            except diff.pyteal_errors():
                pass
            except RecursionError:
                pass
            except Exception as e:  # noqa
                out.append(("store_into-crash:%s" % type(e).__name__, "store_into(%s <- %s, %s, v%d) raised %r" % (sb, sa, where, version, e)))
                return out
            finally:
                diff.reset_pyteal_state()
    return out


def check_set(a, b):
    """assignment path: <B instance>.set(<A instance>) with differently shaped A must raise"""
    import pyteal as pt

    try:
        diff.reset_pyteal_state()
        src = spec_of(pt, a).new_instance()
        dst = spec_of(pt, b).new_instance()
        dst.set(src)
    except diff.pyteal_errors():
        return []
    except (TypeError, AttributeError, ValueError):
        return []  # not an accepted argument form at all
    except Exception as e:  # noqa
        return [("set-crash:%s" % type(e).__name__, "%s.set(<%s instance>) raised %r" % (S.sdk_str(b), S.sdk_str(a), e))]
    finally:
        diff.reset_pyteal_state()
    return [("set-accepts-different-layout", "%s.set(<%s instance>) was accepted although the layouts differ (%s vs %s): the bytes are copied unchanged" % (S.sdk_str(b), S.sdk_str(a), layout(b), layout(a)))]


def run_case(case, col=None):
    a, b = case["a"], case["b"]
    out, res = judge_pair(a, b)
    if out:
        return out
    if res and a[0] not in ("txn", "ref") and case.get("values", True):
        # same bytes under both reference types for sample values
        ta, tb = S.sdk_type(a), S.sdk_type(b)
        from hypothesis import find  # noqa

        for v in case.get("sample_values", []):
            va = S.unjson(a, v)
            ea = ta.encode(S.sdk_value(a, va))
            try:
                back = tb.decode(ea)
                eb = tb.encode(back)
            except Exception as e:  # noqa
                if layout(a) == layout(b):
                    # algosdk cannot decode some zero-length encodings (e.g. T[0] members) even as their own type
                    if col:
                        col.cls("reference-decoder-quirk(skipped)")
                    continue
                out.append(("assignable-undecodable", "%s is assignable to %s but an encoding of the former does not decode as the latter: %r" % (S.sdk_str(a), S.sdk_str(b), e)))
                break
            if ea != eb:
                out.append(("assignable-different-bytes", "%s -> %s: %s re-encodes as %s" % (S.sdk_str(a), S.sdk_str(b), ea.hex(), eb.hex())))
                break
    if res is False and not compatible(a, b) and case.get("call_sites"):
        out += check_call_sites(a, b)
        if a[0] not in ("txn", "ref") and b[0] not in ("txn", "ref"):
            out += check_store_into(a, b)
    if not compatible(a, b) and a[0] not in ("txn", "ref") and b[0] not in ("txn", "ref", "tuple", "named"):
        out += check_set(a, b)
    if col:
        col.cls("assignable" if res else "not-assignable")
        if res and a != b:
            col.cls("assignable-and-differently-spelled")
    return out


def judge(case):
    return run_case(case)


# ---------------------------------------------------------------- perturbation


@st.composite
def perturb(draw, s):
    """a structurally perturbed copy of shape s"""
    t = s[0]
    k = draw(st.integers(0, 9))
    if t in ("tuple", "named") and S.members(s) and k <= 5:
        ms = S.members(s)
        i = draw(st.integers(0, len(ms) - 1))
        w = draw(st.integers(0, 5))
        if w == 0:
            new = ms[:i] + ms[i + 1:]
        elif w == 1:
            new = ms[: i + 1] + [draw(st.sampled_from(S.LEAVES))] + ms[i + 1:]
        elif w == 2 and len(ms) >= 2:
            j = (i + 1) % len(ms)
            new = list(ms)
            new[i], new[j] = new[j], new[i]
        elif w == 3:
            new = list(ms)
        else:
            new = ms[:i] + [draw(perturb(ms[i]))] + ms[i + 1:]
        if draw(st.booleans()) and 1 <= len(new) <= 8:
            names = draw(st.permutations(S.FIELD_NAMES))[: len(new)]
            fields = [[names[q], m if S.annotatable(m) else ["uint", 8]] for q, m in enumerate(new)]
            return ["named", fields]
        return ["tuple", new]
    if t == "sa":
        w = draw(st.integers(0, 4))
        if w == 0:
            return ["sa", s[1], max(0, s[2] + draw(st.sampled_from([-1, 1])))]
        if w == 1:
            return ["da", s[1]]
        if w == 2 and s[1][0] in ("byte",):
            return ["sbytes", s[2]]
        return ["sa", draw(perturb(s[1])), s[2]]
    if t == "da":
        w = draw(st.integers(0, 4))
        if w == 0:
            return ["sa", s[1], draw(st.sampled_from([0, 1, 2]))]
        if w == 1 and s[1][0] == "byte":
            return draw(st.sampled_from([["dbytes"], ["string"]]))
        return ["da", draw(perturb(s[1]))]
    respell = {
        "byte": [["uint", 8], ["bool"], ["uint", 16]],
        "uint": [["byte"], ["uint", {8: 16, 16: 32, 32: 64, 64: 32}.get(s[1] if t == "uint" else 8, 8)], ["uint", 8]],
        "bool": [["uint", 8], ["byte"]],
        "address": [["sbytes", 32], ["sa", ["byte"], 32], ["sa", ["uint", 8], 32], ["sbytes", 31], ["string"]],
        "string": [["dbytes"], ["da", ["byte"]], ["da", ["uint", 8]], ["da", ["uint", 16]], ["address"]],
        "dbytes": [["string"], ["da", ["byte"]], ["da", ["uint", 8]], ["sbytes", 4]],
        "sbytes": [["sa", ["byte"], s[1] if t == "sbytes" else 4], ["sa", ["uint", 8], s[1] if t == "sbytes" else 4], ["sbytes", (s[1] if t == "sbytes" else 4) + 1], ["address"], ["dbytes"]],
    }
    return draw(st.sampled_from(respell.get(t, [["uint", 8]])))


@st.composite
def case_strategy(draw, tier):
    a = draw(S.shape_strategy(max_depth=3))
    b = draw(perturb(a))
    if draw(st.booleans()):
        a, b = b, a
    vals = [S.jsonable(a, draw(S.value_strategy(a))) for _ in range(2)]
    return {"a": a, "b": b, "sample_values": vals, "call_sites": draw(st.integers(0, 2)) == 0}


def shard(tier, seedv, k, n, col: Collector):
    uni = universe()
    col.extra["universe_types"] = len(uni) if k == 0 else 0
    col.extra["universe_exhaustive"] = True
    idx = 0
    for i, a in enumerate(uni):
        for j, b in enumerate(uni):
            idx += 1
            if idx % n != k:
                continue
            col.case()
            case = {"a": a, "b": b, "values": False, "call_sites": (i * 31 + j * 17) % 29 == 0}
            res = run_case(case, col)
            if a != b:
                col.nontriv(sha([a, b]))
            for bk, d in res:
                col.fail(bk, d, case)

    def body(case):
        col.case()
        res = run_case(case, col)
        col.cls("perturbed-pair")
        if case["a"] != case["b"]:
            col.nontriv(sha([case["a"], case["b"]]))
        for bk, d in res:
            col.fail(bk, d, case)
        if not res and len(col.samples) < 3:
            col.sample({"a": S.sdk_str(case["a"]), "b": S.sdk_str(case["b"]), "a_shape": case["a"], "b_shape": case["b"]})

    hyp_run(body, case_strategy(tier), N_EX[tier], seedv, key=lambda c: [c["a"], c["b"]], col=col)
