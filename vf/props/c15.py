"""C15 - source maps are faithful and never perturb the program (generated source files, fresh-process compile)."""
# NOTE: no `from __future__ import annotations`
import json
import os
import re
import shutil
import subprocess
import sys
import tempfile

from hypothesis import strategies as st

from .. import env
from ..runner import Collector, hyp_run, sha
from ..teal import parser as tp

ID = "C15"
LEVEL = "exploration"
RULE = (
    "(1) Generated Python SOURCE FILES (1..3 modules in a run-scoped scratch directory, removed afterwards): a program "
    "with one marker constant (Int(10^6+k) or Bytes('mk<k>')) per source line, nested Seq/If/Cond/While, plain helper "
    "functions and @Subroutine routines, some defined in another module and some before/after their caller (negative "
    "line deltas), optional 600..70000 leading blank lines (large VLQ deltas); compiled in a fresh subprocess that "
    "enables the sourcemap feature gate before importing pyteal, with_sourcemap=True x annotate_teal x headers x "
    "concise, versions 6..10. Oracle: TEAL with map == TEAL from compileTeal without; the R3 map has exactly one entry "
    "per TEAL line, in order, column 0; every entry (and every `sources` item of the JSON) names a file that exists when resolved against the map's sourceRoot and is one of the generated files, with an existing line of it; the TEAL line "
    "carrying marker k is attributed to the (file, line) where k was written; R3SourceMap.from_json(to_json()) gives the "
    "same (line, column, source, source_line, source_column) tuples and so does an INDEPENDENT base64-VLQ decoder of the "
    "`mappings` string; annotated TEAL with comments stripped (quote-aware lexer) equals the plain TEAL line by line. "
    "(2) Pure functions: _base64vlq_decode(_base64vlq_encode(*v)) == v for integer tuples (|v| up to 2^40). "
    "non-trivial = >= 10 marker lines and (>= 1 subroutine or >= 2 files); VLQ cases with a negative or >= 2^15 value; "
    "Histories: 1..3 compilations of the program in ONE process with os.chdir() between them into directories of different depth; lines that also carry import/def/decorator-like words in a trailing comment or inside a Bytes literal; modules using `import pyteal` / `import pyteal as pt` qualified names. distinct by generated sources."
)
ASSUMPTIONS = ["PC-level maps need algod and are out of scope", "vf/teal/parser.py tokenizer for comment stripping"]
SHARDS = {"quick": 16, "thorough": 16}
N_EX = {"quick": 6, "thorough": 150}
MIN_NONTRIVIAL = {"quick": 40, "thorough": 1000}
WORKER = os.path.join(env.VERIF_DIR, "vf", "c15_worker.py")
TRICKY_TEXT = [
    "keep in sync with the pyteal import order", "do not import this one", "import pyteal", "from pyteal import *",
    "pyteal.Int import", "def program():", "@Subroutine(TealType.uint64)", "return Seq(", "see pyteal/compiler/compiler.py",
    "lambda x: x", "class A: pass", "import os", "pyteal",
]
B64 = "ABCDEFGHIJKLMNOPQRSTUVWXYZabcdefghijklmnopqrstuvwxyz0123456789+/"


def vlq_decode_segment(seg: str):
    """independent base64-VLQ decoder (Source Map v3): list of signed integers"""
    out, shift, val = [], 0, 0
    for ch in seg:
        d = B64.index(ch)
        cont = d & 32
        val += (d & 31) << shift
        shift += 5
        if not cont:
            out.append(-(val >> 1) if val & 1 else (val >> 1))
            shift, val = 0, 0
    if shift:
        raise ValueError("truncated VLQ")
    return out


def decode_mappings(j):
    """-> [[teal_line, col, source, source_line, source_col]] from the v3 JSON, independently of pyteal"""
    res = []
    src = sline = scol = 0
    for li, line in enumerate(j["mappings"].split(";")):
        col = 0
        if not line:
            continue
        for seg in line.split(","):
            f = vlq_decode_segment(seg)
            col += f[0]
            if len(f) >= 4:
                src += f[1]
                sline += f[2]
                scol += f[3]
                res.append([li, col, j["sources"][src] if 0 <= src < len(j["sources"]) else "BAD-SOURCE-INDEX:%d" % src, sline, scol])
            else:
                res.append([li, col, None, None, None])
    return res


# ---------------------------------------------------------------- source rendering


class Src:
    def __init__(self, name, blank=0, style=0):
        self.name = name
        self.style = style
        self.pfx = ["", "pyteal.", "pt."][style]
        self.lines = [["from pyteal import *", "import pyteal", "import pyteal as pt"][style]] + [""] * blank
        self.markers = {}  # marker key -> 1-based line

    def add(self, text, marker=None):
        self.lines.append(text)
        if marker is not None:
            self.markers.setdefault(marker, []).append(len(self.lines))
        return len(self.lines)

    def text(self):
        return "\n".join(self.lines) + "\n"


@st.composite
def sources_strategy(draw):
    nfiles = draw(st.sampled_from([1, 1, 2, 3]))
    files = [Src("c15_main", blank=draw(st.sampled_from([0, 0, 0, 600, 5000, 70000])), style=draw(st.sampled_from([0, 0, 1, 2])))]
    for i in range(1, nfiles):
        files.append(Src(draw(st.sampled_from(["aa_consts", "zz_helpers", "mm_logic"])) + str(i), blank=draw(st.sampled_from([0, 0, 300, 20000])), style=draw(st.sampled_from([0, 0, 1, 2]))))
    mk = [0]
    tr = [0]
    cur = [files[0]]

    def marker():
        """a constant that identifies its source line; sometimes the line also carries text that resembles other
        source constructs (the words of an import statement, a def, a decorator) in a comment or inside the literal"""
        mk[0] += 1
        k = mk[0]
        P = cur[0].pfx
        tail = ""
        if draw(st.integers(0, 4)) == 0:
            tail = "  # " + draw(st.sampled_from(TRICKY_TEXT))
            tr[0] += 1
        if draw(st.integers(0, 3)) == 0:
            inner = ""
            if draw(st.integers(0, 2)) == 0:
                inner = " " + draw(st.sampled_from(TRICKY_TEXT))
                tr[0] += 1
            return "%sBytes(\"mk%d%s\")" % (P, k, inner), ("b", k), "B", tail
        return "%sInt(%d)" % (P, 1000000 + k), ("i", k), "U", tail

    helpers = []  # (module index, name, kind)
    nh = draw(st.integers(0, 3))
    defs_after = draw(st.booleans())

    def umarker():
        while True:
            e, key, t, tail = marker()
            if t == "U":
                return e, key, t, tail

    def define_helper(f, idx, name, kind):
        cur[0] = f
        P = f.pfx
        if kind == "sub":
            f.add("@%sSubroutine(%sTealType.uint64)" % (P, P))
        f.add("def %s(x):" % name)
        f.add("    return %sSeq(" % P)
        for _ in range(draw(st.integers(0, 2))):
            e, key, t, tail = marker()
            f.add("        %sPop(%s),%s" % (P, e, tail), key)
        e, key, t, tail = umarker()
        f.add("        x + %s,%s" % (e, tail), key)
        f.add("    )")
        f.add("")

    for h in range(nh):
        fi = draw(st.integers(0, nfiles - 1))
        helpers.append((fi, "helper%d" % h, draw(st.sampled_from(["plain", "sub", "sub"]))))
    main = files[0]
    for i in range(1, nfiles):
        main.add("import %s" % files[i].name)
    main.add("")
    # helpers living in other modules are defined there; those of the main module before or after program()
    for fi, name, kind in helpers:
        if fi != 0:
            define_helper(files[fi], fi, name, kind)
    if not defs_after:
        for fi, name, kind in helpers:
            if fi == 0:
                define_helper(main, 0, name, kind)
    cur[0] = main
    P = main.pfx
    main.add("def program():")
    main.add("    return %sSeq(" % P)
    nst = draw(st.integers(3, 14))
    depth_pad = "        "
    dups = []
    for _ in range(nst):
        k = draw(st.integers(0, 9))
        if k <= 4:
            if dups and draw(st.integers(0, 2)) == 0:
                # the same literal written again on another line (each occurrence is emitted exactly once)
                e, key, t = dups[draw(st.integers(0, len(dups) - 1))]
                tail = ""
            else:
                e, key, t, tail = marker()
                if draw(st.integers(0, 2)) == 0:
                    dups.append((e, key, t))
            main.add(depth_pad + "%sPop(%s),%s" % (P, e, tail), key)
        elif k <= 6 and helpers:
            fi, name, kind = helpers[draw(st.integers(0, len(helpers) - 1))]
            e, key, t, tail = umarker()
            call = name if fi == 0 else "%s.%s" % (files[fi].name, name)
            main.add(depth_pad + "%sPop(%s(%s)),%s" % (P, call, e, tail), key)
        elif k == 7:
            e, key, t, tail = umarker()
            main.add(depth_pad + "%sIf(%s).Then(%s" % (P, e, tail), key)
            for _ in range(draw(st.integers(1, 3))):
                e2, key2, _t, tail2 = marker()
                main.add(depth_pad + "    %sPop(%s),%s" % (P, e2, tail2), key2)
            main.add(depth_pad + "),")
        elif k == 8:
            e, key, t, tail = umarker()
            main.add(depth_pad + "%sCond(" % P)
            main.add(depth_pad + "    [%s,%s" % (e, tail), key)
            e2, key2, _t, tail2 = marker()
            main.add(depth_pad + "     %sPop(%s)],%s" % (P, e2, tail2), key2)
            e3, key3, t3, tail3 = umarker()
            main.add(depth_pad + "    [%s, %sPop(%sInt(0))],%s" % (e3, P, P, tail3), key3)
            main.add(depth_pad + "),")
        else:
            e, key, t, tail = marker()
            main.add(depth_pad + "%sAssert(" % P)
            main.add(depth_pad + "    %s,%s" % (e if t == "U" else "%sLen(%s)" % (P, e), tail), key)
            main.add(depth_pad + "),")
    e, key, t, tail = umarker()
    main.add(depth_pad + "%s,%s" % (e, tail), key)
    main.add("    )")
    main.add("")
    if defs_after:
        for fi, name, kind in helpers:
            if fi == 0:
                define_helper(main, 0, name, kind)
    return {"files": [{"name": f.name, "text": f.text(), "markers": [[list(k), v] for k, v in f.markers.items()]} for f in files],
            "nmarkers": mk[0], "nsubs": sum(1 for h in helpers if h[2] == "sub"), "nfiles": nfiles,
            "styles": [f.style for f in files], "tricky": tr[0], "ndup": sum(1 for f in files for v in f.markers.values() if len(v) > 1)}


WORKDIRS = ["", "ws", "ws/deeper", "ws/deeper/still"]


def run_worker(case):
    d = tempfile.mkdtemp(prefix="vf_c15_")
    try:
        for f in case["sources"]["files"]:
            with open(os.path.join(d, f["name"] + ".py"), "w") as fh:
                fh.write(f["text"])
        os.makedirs(os.path.join(d, WORKDIRS[-1]))
        e = dict(os.environ, PYTHONHASHSEED="0", PYTHONDONTWRITEBYTECODE="1", VERIF_REPO=env.REPO)
        job = dict(case["cfg"], main="c15_main", steps=case.get("steps") or [None])
        p = subprocess.run([sys.executable, WORKER, d], input=json.dumps(job), capture_output=True, text=True, env=e, timeout=900)
        if p.returncode != 0:
            raise RuntimeError("c15 worker failed: %s" % p.stderr[-1500:])
        return json.loads(p.stdout), d
    finally:
        shutil.rmtree(d, ignore_errors=True)


def run_case(case, col=None):
    if case.get("kind") == "vlq":
        return run_vlq(case)
    res, d = run_worker(case)
    first = None
    for ri, run in enumerate(res["runs"]):
        out = judge_run(case, run, res["src_dir"], col if ri == 0 else None)
        if out:
            step = (case.get("steps") or [None])[ri]
            return [(b, "compilation #%d of the process (working directory %s): %s" % (ri + 1, "unchanged" if step is None else "<sources>/" + step, m)) for b, m in out]
        if "error" in run:
            continue
        if first is None:
            first = run
        elif run["plain"] != first["plain"]:
            return [("history-changes-teal", "compilation #%d of the same program in one process gives different TEAL than the first" % (ri + 1))]
    return []


def judge_run(case, res, src_dir, col=None):
    out = []
    if "error" in res:
        # the generated sources are valid programs: a failure to produce the map is a finding only if plain compile worked
        if "plain" in res:
            out.append(("sourcemap-failed", "plain compilation succeeded but compiling with a source map raised %s" % res["error"]))
        elif col:
            col.cls("discard:program-rejected")
        return out
    plain, withm = res["plain"], res["with_map"]
    if plain != withm:
        out.append(("teal-perturbed", "TEAL with a source map differs from TEAL without one"))
        return out
    lines = plain.split("\n")
    ents = res["entries"]
    keys = [(e[0], e[1]) for e in ents]
    if keys != [(i, 0) for i in range(len(lines))]:
        out.append(("entries-per-line", "the map has entries %s... for a program of %d lines (expected exactly one per line, in order, column 0)" % (keys[:6], len(lines))))
        return out
    files = {f["name"] + ".py": f for f in case["sources"]["files"]}
    paths = {os.path.join(src_dir, n): n for n in files}
    resolved = res.get("resolved") or {}
    for e in ents:
        if e[2] is None:
            out.append(("entry-without-source", "TEAL line %d has no source file" % (e[0] + 1)))
            return out
        real = resolved.get(e[2])
        if real is None:
            out.append(("entry-file-does-not-exist", "TEAL line %d is mapped to source %r which does not exist under sourceRoot %r" % (e[0] + 1, e[2], res.get("source_root"))))
            return out
        if real in paths:
            src = paths[real]
            nlines = files[src]["text"].count("\n")
            if e[3] is None or not (0 <= e[3] < nlines):
                out.append(("entry-line-out-of-file", "TEAL line %d is mapped to %s line %s, the file has %d lines" % (e[0] + 1, src, e[3], nlines)))
                return out
        elif real != os.path.realpath(WORKER):
            out.append(("entry-unknown-file", "TEAL line %d is mapped to %r (= %s) which is neither one of the source files %s nor the compiling script" % (e[0] + 1, e[2], real, sorted(files))))
            return out
    for sname in res["json"].get("sources", []):
        if resolved.get(sname) is None:
            out.append(("json-source-does-not-exist", "the v3 JSON lists source %r which does not exist under its sourceRoot %r" % (sname, res["json"].get("sourceRoot"))))
            return out
    # markers
    where = {}
    for f in case["sources"]["files"]:
        for k, lns in f["markers"]:
            where[tuple(k)] = (f["name"] + ".py", [lns] if isinstance(lns, int) else list(lns))
    seen = 0
    attributed = {}
    for i, l in enumerate(lines):
        toks = l.split()
        key = None
        # with assembled constants the literal survives in the trailing comment: `bytec_1 // "mk7"`, `pushint 1000007 // 1000007`
        lit = None
        if len(toks) == 2 and toks[0] == "int":
            lit = toks[1]
        elif len(toks) >= 2 and toks[0] == "byte":
            lit = toks[1]
        elif "//" in toks and toks[0] in ("intc", "intc_0", "intc_1", "intc_2", "intc_3", "pushint", "bytec", "bytec_0", "bytec_1", "bytec_2", "bytec_3", "pushbytes"):
            rest = toks[toks.index("//") + 1:]
            lit = rest[0] if rest else None
        if lit is not None and lit.isdigit() and int(lit) > 1000000:
            key = ("i", int(lit) - 1000000)
        elif lit is not None and lit.startswith('"mk'):
            m = re.match(r'"mk(\d+)', lit)
            key = ("b", int(m.group(1))) if m else None
        if key is None or key not in where:
            continue
        seen += 1
        e = ents[i]
        real = resolved.get(e[2])
        got = (paths.get(real, real), (e[3] + 1) if e[3] is not None else None)
        wfile, wlines = where[key]
        if got[0] != wfile or got[1] not in wlines:
            out.append(("marker-misattributed", "TEAL line %d `%s` was written at %s:%s but the map attributes it to %s:%s" % (i + 1, l, wfile, wlines, got[0], got[1])))
            return out
        attributed.setdefault(key, []).append(got[1])
    for key, gl in attributed.items():
        wfile, wlines = where[key]
        if len(wlines) > 1 and sorted(gl) != sorted(wlines):
            out.append(("marker-misattributed", "the literal of marker %s was written on lines %s of %s (each emitted once) but its TEAL lines are attributed to lines %s" % (list(key), wlines, wfile, sorted(gl))))
            return out
    if col:
        col.cls("markers-checked", seen)
    # JSON round trip through pyteal's own reader and through the independent decoder
    if res["roundtrip"] != ents:
        k = next((i for i in range(min(len(ents), len(res["roundtrip"]))) if ents[i] != res["roundtrip"][i]), None)
        out.append(("json-roundtrip", "R3SourceMap.from_json(to_json()) differs at entry %s: %s vs %s" % (k, ents[k] if k is not None else len(ents), res["roundtrip"][k] if k is not None else len(res["roundtrip"]))))
        return out
    try:
        dec = decode_mappings(res["json"])
    except Exception as ex:  # noqa
        out.append(("json-undecodable", "the mappings string does not decode as base64 VLQ: %r" % ex))
        return out
    norm = [[e[0], e[1], e[2], e[3], e[4]] for e in ents]
    if dec != norm:
        k = next((i for i in range(min(len(dec), len(norm))) if dec[i] != norm[i]), None)
        out.append(("json-independent-decode", "independent decoding of the v3 JSON differs at entry %s: map %s vs decoded %s" % (k, norm[k] if k is not None else len(norm), dec[k] if k is not None else len(dec))))
        return out
    # annotated TEAL == plain TEAL once comments are removed
    if case["cfg"]["annotate"]:
        ann = res.get("annotated") or ""
        alines = ann.split("\n")
        if case["cfg"]["headers"] and alines and alines[0].lstrip().startswith("//"):
            alines = alines[1:]
        stripped = []
        for al in alines:
            toks, _c = tp.tokens_from_line(al)
            stripped.append(" ".join(toks))
        want = [" ".join(tp.tokens_from_line(l)[0]) for l in lines]
        if stripped != want:
            k = next((i for i in range(min(len(stripped), len(want))) if stripped[i] != want[i]), None)
            out.append(("annotated-differs", "annotated TEAL without comments differs from the plain TEAL at line %s: %r vs %r" % (k, stripped[k] if k is not None and k < len(stripped) else len(stripped), want[k] if k is not None and k < len(want) else len(want))))
    return out


def run_vlq(case):
    import pyteal  # noqa
    from pyteal.compiler import sourcemap as sm

    vals = tuple(case["values"])
    try:
        enc = sm._base64vlq_encode(*vals)
        dec = tuple(sm._base64vlq_decode(enc))
    except Exception as e:  # noqa
        return [("vlq-crash:%s" % type(e).__name__, "VLQ round trip of %s raised %r" % (vals, e))]
    out = []
    if dec != vals:
        out.append(("vlq-roundtrip", "_base64vlq_decode(_base64vlq_encode%s) = %s" % (vals, dec)))
    try:
        mine = tuple(vlq_decode_segment(enc))
        if mine != vals:
            out.append(("vlq-encode", "_base64vlq_encode%s = %r which an independent decoder reads as %s" % (vals, enc, mine)))
    except Exception as e:  # noqa
        out.append(("vlq-encode", "_base64vlq_encode%s = %r is not valid base64 VLQ: %r" % (vals, enc, e)))
    return out


def judge(case):
    return run_case(case)


def shrinks(case):
    if case.get("kind") == "vlq":
        vals = case["values"]
        for i in range(len(vals)):
            if len(vals) > 1:
                yield dict(case, values=vals[:i] + vals[i + 1:])
            if abs(vals[i]) > 1:
                yield dict(case, values=vals[:i] + [vals[i] // 2] + vals[i + 1:])
        return
    return


@st.composite
def case_strategy(draw, tier):
    case = {"sources": draw(sources_strategy()), "cfg": {"version": draw(st.sampled_from([6, 8, 10])), "annotate": draw(st.booleans()), "headers": draw(st.booleans()), "concise": draw(st.booleans()), "assemble": draw(st.integers(0, 2)) == 0}}
    # a history of compilations in one process, the working directory changing in between (relative source names are
    # relative to the map's sourceRoot, which is the working directory at the time of the compilation)
    case["steps"] = draw(st.sampled_from([[None], [None], [None, None], [None, "ws/deeper"], ["ws", ""], ["", "ws/deeper/still", "ws"], ["ws/deeper", None, ""]]))
    return case


def vlq_strategy():
    big = st.one_of(st.integers(-(2**40), 2**40), st.sampled_from([0, 1, -1, 15, 16, -16, 31, 32, 511, 512, -512, 1023, 1024, 2**15, -(2**15), 2**20, 2**31]), st.integers(-600, 600))
    return st.lists(big, min_size=1, max_size=5).map(lambda v: {"kind": "vlq", "values": v})


def shard(tier, seedv, k, n, col: Collector):
    def body(case):
        col.case()
        res = run_case(case, col)
        s = case["sources"]
        if s["nmarkers"] >= 10 and (s["nsubs"] >= 1 or s["nfiles"] >= 2):
            col.nontriv(sha([f["text"] for f in s["files"]]))
        col.cls("files:%d" % s["nfiles"])
        col.cls("compilations-in-one-process:%d" % len(case.get("steps") or [None]))
        if len(set(x for x in (case.get("steps") or [None]) if x is not None)) >= 1 and len(case["steps"]) >= 2:
            col.cls("has:working-directory-change-between-compilations")
        if s.get("ndup"):
            col.cls("has:literal-written-on-several-lines")
        if case["cfg"].get("assemble"):
            col.cls("cfg:assemble_constants")
        if s.get("tricky"):
            col.cls("has:line-with-import/def-like-text-in-comment-or-literal")
        if any(s.get("styles") or []):
            col.cls("has:module-using-qualified-pyteal-names")
        if any(f["text"].count("\n") > 550 for f in s["files"]):
            col.cls("has:file-over-550-lines (large VLQ deltas)")
        for b, d in res:
            col.fail(b, d, case)
        if not res and len(col.samples) < 2 and s["nfiles"] >= 2 and all(len(f["text"]) < 1500 for f in s["files"]):
            col.sample({"files": {f["name"]: f["text"].split("\n") for f in s["files"]}, "cfg": case["cfg"]})

    hyp_run(body, case_strategy(tier), N_EX[tier], seedv, key=lambda c: [c["cfg"], c.get("steps"), [f["text"] for f in c["sources"]["files"]]], col=col)

    def vbody(case):
        col.case()
        res = run_vlq(case)
        if any(v < 0 or abs(v) >= 2**15 for v in case["values"]):
            col.nontriv(sha(case["values"]))
        col.cls("vlq-roundtrips")
        for b, d in res:
            col.fail(b, d, case)

    hyp_run(vbody, vlq_strategy(), 300 if tier == "quick" else 5000, env.derive(seedv, "vlq"), key=lambda c: c["values"], col=col)
