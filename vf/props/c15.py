"""C15 - source maps are faithful and never perturb the program (generated source files, fresh-process compile)."""
# NOTE: no `from __future__ import annotations`
import json
import os
import shutil
import subprocess
import sys
import tempfile

from hypothesis import strategies as st

from .. import env
from ..runner import Collector, hyp_run, sha
from ..teal import parser as tp

ID = "C15"
LEVEL = "exploration"
RULE = (
    "(1) Generated Python SOURCE FILES (1..3 modules in a run-scoped scratch directory, removed afterwards): a program "
    "with one marker constant (Int(10^6+k) or Bytes('mk<k>')) per source line, nested Seq/If/Cond/While, plain helper "
    "functions and @Subroutine routines, some defined in another module and some before/after their caller (negative "
    "line deltas), optional 600..70000 leading blank lines (large VLQ deltas); compiled in a fresh subprocess that "
    "enables the sourcemap feature gate before importing pyteal, with_sourcemap=True x annotate_teal x headers x "
    "concise, versions 6..10. Oracle: TEAL with map == TEAL from compileTeal without; the R3 map has exactly one entry "
    "per TEAL line, in order, column 0; every entry names an existing file and an existing line of it; the TEAL line "
    "carrying marker k is attributed to the (file, line) where k was written; R3SourceMap.from_json(to_json()) gives the "
    "same (line, column, source, source_line, source_column) tuples and so does an INDEPENDENT base64-VLQ decoder of the "
    "`mappings` string; annotated TEAL with comments stripped (quote-aware lexer) equals the plain TEAL line by line. "
    "(2) Pure functions: _base64vlq_decode(_base64vlq_encode(*v)) == v for integer tuples (|v| up to 2^40). "
    "non-trivial = >= 10 marker lines and (>= 1 subroutine or >= 2 files); VLQ cases with a negative or >= 2^15 value; "
    "distinct by generated sources."
)
ASSUMPTIONS = ["PC-level maps need algod and are out of scope", "vf/teal/parser.py tokenizer for comment stripping"]
SHARDS = {"quick": 16, "thorough": 16}
N_EX = {"quick": 6, "thorough": 150}
MIN_NONTRIVIAL = {"quick": 40, "thorough": 1000}
WORKER = os.path.join(env.VERIF_DIR, "vf", "c15_worker.py")
B64 = "ABCDEFGHIJKLMNOPQRSTUVWXYZabcdefghijklmnopqrstuvwxyz0123456789+/"


def vlq_decode_segment(seg: str):
    """independent base64-VLQ decoder (Source Map v3): list of signed integers"""
    out, shift, val = [], 0, 0
    for ch in seg:
        d = B64.index(ch)
        cont = d & 32
        val += (d & 31) << shift
        shift += 5
        if not cont:
            out.append(-(val >> 1) if val & 1 else (val >> 1))
            shift, val = 0, 0
    if shift:
        raise ValueError("truncated VLQ")
    return out


def decode_mappings(j):
    """-> [[teal_line, col, source, source_line, source_col]] from the v3 JSON, independently of pyteal"""
    res = []
    src = sline = scol = 0
    for li, line in enumerate(j["mappings"].split(";")):
        col = 0
        if not line:
            continue
        for seg in line.split(","):
            f = vlq_decode_segment(seg)
            col += f[0]
            if len(f) >= 4:
                src += f[1]
                sline += f[2]
                scol += f[3]
                res.append([li, col, j["sources"][src] if 0 <= src < len(j["sources"]) else "BAD-SOURCE-INDEX:%d" % src, sline, scol])
            else:
                res.append([li, col, None, None, None])
    return res


# ---------------------------------------------------------------- source rendering


class Src:
    def __init__(self, name, blank=0):
        self.name = name
        self.lines = ["from pyteal import *"] + [""] * blank
        self.markers = {}  # marker key -> 1-based line

    def add(self, text, marker=None):
        self.lines.append(text)
        if marker is not None:
            self.markers[marker] = len(self.lines)
        return len(self.lines)

    def text(self):
        return "\n".join(self.lines) + "\n"


@st.composite
def sources_strategy(draw):
    nfiles = draw(st.sampled_from([1, 1, 2, 3]))
    files = [Src("c15_main", blank=draw(st.sampled_from([0, 0, 0, 600, 5000, 70000])))]
    for i in range(1, nfiles):
        files.append(Src(draw(st.sampled_from(["aa_consts", "zz_helpers", "mm_logic"])) + str(i), blank=draw(st.sampled_from([0, 0, 300, 20000]))))
    mk = [0]

    def marker():
        mk[0] += 1
        k = mk[0]
        if draw(st.integers(0, 3)) == 0:
            return "Bytes(\"mk%d\")" % k, ("b", k), "B"
        return "Int(%d)" % (1000000 + k), ("i", k), "U"

    helpers = []  # (module index, name, kind)
    nh = draw(st.integers(0, 3))
    defs_after = draw(st.booleans())

    def define_helper(f, idx, name, kind):
        if kind == "sub":
            f.add("@Subroutine(TealType.uint64)")
        f.add("def %s(x):" % name)
        f.add("    return Seq(")
        for _ in range(draw(st.integers(0, 2))):
            e, key, t = marker()
            f.add("        Pop(%s)," % e, key)
        e, key, t = marker()
        while t != "U":
            e, key, t = marker()
        f.add("        x + %s," % e, key)
        f.add("    )")
        f.add("")

    for h in range(nh):
        fi = draw(st.integers(0, nfiles - 1))
        helpers.append((fi, "helper%d" % h, draw(st.sampled_from(["plain", "sub", "sub"]))))
    main = files[0]
    for i in range(1, nfiles):
        main.add("import %s" % files[i].name)
    main.add("")
    # helpers living in other modules are defined there; those of the main module before or after program()
    for fi, name, kind in helpers:
        if fi != 0:
            define_helper(files[fi], fi, name, kind)
    if not defs_after:
        for fi, name, kind in helpers:
            if fi == 0:
                define_helper(main, 0, name, kind)
    main.add("def program():")
    main.add("    return Seq(")
    nst = draw(st.integers(3, 14))
    depth_pad = "        "
    for _ in range(nst):
        k = draw(st.integers(0, 9))
        if k <= 4:
            e, key, t = marker()
            main.add(depth_pad + "Pop(%s)," % e, key)
        elif k <= 6 and helpers:
            fi, name, kind = helpers[draw(st.integers(0, len(helpers) - 1))]
            e, key, t = marker()
            while t != "U":
                e, key, t = marker()
            call = name if fi == 0 else "%s.%s" % (files[fi].name, name)
            main.add(depth_pad + "Pop(%s(%s))," % (call, e), key)
        elif k == 7:
            e, key, t = marker()
            while t != "U":
                e, key, t = marker()
            main.add(depth_pad + "If(%s).Then(" % e, key)
            for _ in range(draw(st.integers(1, 3))):
                e2, key2, _t = marker()
                main.add(depth_pad + "    Pop(%s)," % e2, key2)
            main.add(depth_pad + "),")
        elif k == 8:
            e, key, t = marker()
            while t != "U":
                e, key, t = marker()
            main.add(depth_pad + "Cond(")
            main.add(depth_pad + "    [%s," % e, key)
            e2, key2, _t = marker()
            main.add(depth_pad + "     Pop(%s)]," % e2, key2)
            e3, key3, t3 = marker()
            while t3 != "U":
                e3, key3, t3 = marker()
            main.add(depth_pad + "    [%s, Pop(Int(0))]," % e3, key3)
            main.add(depth_pad + "),")
        else:
            e, key, t = marker()
            main.add(depth_pad + "Assert(")
            main.add(depth_pad + "    %s," % (e if t == "U" else "Len(%s)" % e), key)
            main.add(depth_pad + "),")
    e, key, t = marker()
    while t != "U":
        e, key, t = marker()
    main.add(depth_pad + "%s," % e, key)
    main.add("    )")
    main.add("")
    if defs_after:
        for fi, name, kind in helpers:
            if fi == 0:
                define_helper(main, 0, name, kind)
    return {"files": [{"name": f.name, "text": f.text(), "markers": [[list(k), v] for k, v in f.markers.items()]} for f in files],
            "nmarkers": mk[0], "nsubs": sum(1 for h in helpers if h[2] == "sub"), "nfiles": nfiles}


def run_worker(case):
    d = tempfile.mkdtemp(prefix="vf_c15_")
    try:
        for f in case["sources"]["files"]:
            with open(os.path.join(d, f["name"] + ".py"), "w") as fh:
                fh.write(f["text"])
        e = dict(os.environ, PYTHONHASHSEED="0", PYTHONDONTWRITEBYTECODE="1", VERIF_REPO=env.REPO)
        p = subprocess.run([sys.executable, WORKER, d], input=json.dumps(dict(case["cfg"], main="c15_main")), capture_output=True, text=True, env=e, timeout=600)
        if p.returncode != 0:
            raise RuntimeError("c15 worker failed: %s" % p.stderr[-1500:])
        return json.loads(p.stdout), d
    finally:
        shutil.rmtree(d, ignore_errors=True)


def run_case(case, col=None):
    if case.get("kind") == "vlq":
        return run_vlq(case)
    out = []
    res, d = run_worker(case)
    if "error" in res:
        # the generated sources are valid programs: a failure to produce the map is a finding only if plain compile worked
        if "plain" in res:
            out.append(("sourcemap-failed", "plain compilation succeeded but compiling with a source map raised %s" % res["error"]))
        elif col:
            col.cls("discard:program-rejected")
        return out
    plain, withm = res["plain"], res["with_map"]
    if plain != withm:
        out.append(("teal-perturbed", "TEAL with a source map differs from TEAL without one"))
        return out
    lines = plain.split("\n")
    ents = res["entries"]
    keys = [(e[0], e[1]) for e in ents]
    if keys != [(i, 0) for i in range(len(lines))]:
        out.append(("entries-per-line", "the map has entries %s... for a program of %d lines (expected exactly one per line, in order, column 0)" % (keys[:6], len(lines))))
        return out
    files = {f["name"] + ".py": f for f in case["sources"]["files"]}
    root = res.get("source_root") or ""
    for e in ents:
        src = os.path.basename(e[2]) if e[2] else None
        if src in files:
            nlines = files[src]["text"].count("\n")
            if e[3] is None or not (0 <= e[3] < nlines):
                out.append(("entry-line-out-of-file", "TEAL line %d is mapped to %s line %s, the file has %d lines" % (e[0] + 1, src, e[3], nlines)))
                return out
        elif src != "c15_worker.py":
            out.append(("entry-unknown-file", "TEAL line %d is mapped to %r which is not one of the source files %s" % (e[0] + 1, e[2], sorted(files))))
            return out
    # markers
    where = {}
    for f in case["sources"]["files"]:
        for k, ln in f["markers"]:
            where[tuple(k)] = (f["name"] + ".py", ln)
    seen = 0
    for i, l in enumerate(lines):
        toks = l.split()
        key = None
        if len(toks) == 2 and toks[0] == "int" and toks[1].isdigit() and int(toks[1]) > 1000000:
            key = ("i", int(toks[1]) - 1000000)
        elif len(toks) == 2 and toks[0] == "byte" and toks[1].startswith('"mk'):
            key = ("b", int(toks[1][3:-1]))
        if key is None or key not in where:
            continue
        seen += 1
        e = ents[i]
        got = (os.path.basename(e[2]) if e[2] else None, (e[3] + 1) if e[3] is not None else None)
        if got != where[key]:
            out.append(("marker-misattributed", "TEAL line %d `%s` was written at %s:%d but the map attributes it to %s:%s" % (i + 1, l, where[key][0], where[key][1], got[0], got[1])))
            return out
    if col:
        col.cls("markers-checked", seen)
    # JSON round trip through pyteal's own reader and through the independent decoder
    if res["roundtrip"] != ents:
        k = next((i for i in range(min(len(ents), len(res["roundtrip"]))) if ents[i] != res["roundtrip"][i]), None)
        out.append(("json-roundtrip", "R3SourceMap.from_json(to_json()) differs at entry %s: %s vs %s" % (k, ents[k] if k is not None else len(ents), res["roundtrip"][k] if k is not None else len(res["roundtrip"]))))
        return out
    try:
        dec = decode_mappings(res["json"])
    except Exception as ex:  # noqa
        out.append(("json-undecodable", "the mappings string does not decode as base64 VLQ: %r" % ex))
        return out
    norm = [[e[0], e[1], e[2], e[3], e[4]] for e in ents]
    if dec != norm:
        k = next((i for i in range(min(len(dec), len(norm))) if dec[i] != norm[i]), None)
        out.append(("json-independent-decode", "independent decoding of the v3 JSON differs at entry %s: map %s vs decoded %s" % (k, norm[k] if k is not None else len(norm), dec[k] if k is not None else len(dec))))
        return out
    # annotated TEAL == plain TEAL once comments are removed
    if case["cfg"]["annotate"]:
        ann = res.get("annotated") or ""
        alines = ann.split("\n")
        if case["cfg"]["headers"] and alines and alines[0].lstrip().startswith("//"):
            alines = alines[1:]
        stripped = []
        for al in alines:
            toks, _c = tp.tokens_from_line(al)
            stripped.append(" ".join(toks))
        want = [" ".join(tp.tokens_from_line(l)[0]) for l in lines]
        if stripped != want:
            k = next((i for i in range(min(len(stripped), len(want))) if stripped[i] != want[i]), None)
            out.append(("annotated-differs", "annotated TEAL without comments differs from the plain TEAL at line %s: %r vs %r" % (k, stripped[k] if k is not None and k < len(stripped) else len(stripped), want[k] if k is not None and k < len(want) else len(want))))
    return out


def run_vlq(case):
    import pyteal  # noqa
    from pyteal.compiler import sourcemap as sm

    vals = tuple(case["values"])
    try:
        enc = sm._base64vlq_encode(*vals)
        dec = tuple(sm._base64vlq_decode(enc))
    except Exception as e:  # noqa
        return [("vlq-crash:%s" % type(e).__name__, "VLQ round trip of %s raised %r" % (vals, e))]
    out = []
    if dec != vals:
        out.append(("vlq-roundtrip", "_base64vlq_decode(_base64vlq_encode%s) = %s" % (vals, dec)))
    try:
        mine = tuple(vlq_decode_segment(enc))
        if mine != vals:
            out.append(("vlq-encode", "_base64vlq_encode%s = %r which an independent decoder reads as %s" % (vals, enc, mine)))
    except Exception as e:  # noqa
        out.append(("vlq-encode", "_base64vlq_encode%s = %r is not valid base64 VLQ: %r" % (vals, enc, e)))
    return out


def judge(case):
    return run_case(case)


def shrinks(case):
    if case.get("kind") == "vlq":
        vals = case["values"]
        for i in range(len(vals)):
            if len(vals) > 1:
                yield dict(case, values=vals[:i] + vals[i + 1:])
            if abs(vals[i]) > 1:
                yield dict(case, values=vals[:i] + [vals[i] // 2] + vals[i + 1:])
        return
    return


@st.composite
def case_strategy(draw, tier):
    return {"sources": draw(sources_strategy()), "cfg": {"version": draw(st.sampled_from([6, 8, 10])), "annotate": draw(st.booleans()), "headers": draw(st.booleans()), "concise": draw(st.booleans())}}


def vlq_strategy():
    big = st.one_of(st.integers(-(2**40), 2**40), st.sampled_from([0, 1, -1, 15, 16, -16, 31, 32, 511, 512, -512, 1023, 1024, 2**15, -(2**15), 2**20, 2**31]), st.integers(-600, 600))
    return st.lists(big, min_size=1, max_size=5).map(lambda v: {"kind": "vlq", "values": v})


def shard(tier, seedv, k, n, col: Collector):
    def body(case):
        col.case()
        res = run_case(case, col)
        s = case["sources"]
        if s["nmarkers"] >= 10 and (s["nsubs"] >= 1 or s["nfiles"] >= 2):
            col.nontriv(sha([f["text"] for f in s["files"]]))
        col.cls("files:%d" % s["nfiles"])
        if any(f["text"].count("\n") > 550 for f in s["files"]):
            col.cls("has:file-over-550-lines (large VLQ deltas)")
        for b, d in res:
            col.fail(b, d, case)
        if not res and len(col.samples) < 2 and s["nfiles"] >= 2 and all(len(f["text"]) < 1500 for f in s["files"]):
            col.sample({"files": {f["name"]: f["text"].split("\n") for f in s["files"]}, "cfg": case["cfg"]})

    hyp_run(body, case_strategy(tier), N_EX[tier], seedv, key=lambda c: [c["cfg"], [f["text"] for f in c["sources"]["files"]]], col=col)

    def vbody(case):
        col.case()
        res = run_vlq(case)
        if any(v < 0 or abs(v) >= 2**15 for v in case["values"]):
            col.nontriv(sha(case["values"]))
        col.cls("vlq-roundtrips")
        for b, d in res:
            col.fail(b, d, case)

    hyp_run(vbody, vlq_strategy(), 300 if tier == "quick" else 5000, env.derive(seedv, "vlq"), key=lambda c: c["values"], col=col)
