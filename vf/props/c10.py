"""C10 - every variable is its own storage cell; slot limits are enforced (model-based: dict model vs execution)."""
from __future__ import annotations

from hypothesis import strategies as st

from .. import diff
from ..avm.context import Ctx
from ..avm.interp import BudgetExceeded, run_prog
from ..avm.prims import Unsupported
from ..recipe import gen, nodes as N
from ..recipe.eval import evaluate
from ..runner import Collector, hyp_run, sha
from ..shrink import case_shrinks
from ..teal import parser as tp

ID = "C10"
LEVEL = "exploration"
RULE = (
    "Programs over 1..180 simultaneously live variables of mixed kinds - ScratchVar with automatic or explicitly "
    "requested slot ids, ABI values (scratch-backed in main, frame cells inside routines compiled with frame pointers, "
    "including routines with more than 128 ABI locals), DynamicScratchVar re-pointed over time - spread over the main "
    "routine and 0..2 subroutines (plain and ABI-returning); operation sequences: store a unique marker, read (each read "
    "is made observable as a global-state write), index(), set_index, calls; write-all-then-read-all plus random "
    "interleavings. Options: optimiser on/off, frame pointers on/off, versions 5..10. Oracle: the reference evaluator's "
    "per-variable cell model (var -> last stored marker): observed reads == model. Static cross-checks on the text: every "
    "explicitly requested id is the slot used and what index() pushes; the C04 validity predicate holds. Limit cases: "
    "r requested + a automatic slots with r+a in {255,256} must compile, {257,258,260} must be rejected; a duplicated "
    "requested id must be rejected. non-trivial = >= 3 variables of >= 2 kinds with interleaved writes, or a limit case; "
    "distinct by recipe."
)
ASSUMPTIONS = ["vf/recipe/eval.py cell model", "vf/avm semantics", "global-state writes are used as the observation channel (no log-count limit)"]
SHARDS = {"quick": 16, "thorough": 16}
N_EX = {"quick": 45, "thorough": 1500}
MIN_NONTRIVIAL = {"quick": 200, "thorough": 3000}


def run_case(case, col=None):
    recipe = case["recipe"]
    out = []
    expect = case.get("expect")  # None | "reject" | "accept"
    ctx = Ctx()
    er = None
    if expect != "reject":
        try:
            er = evaluate(recipe, ctx, budget=400_000)
        except (BudgetExceeded, Unsupported):
            return out
    for cfg in case["configs"]:
        oc = diff.compile_recipe(recipe, cfg)
        if expect == "reject":
            if oc.teal is not None:
                out.append(("limit-not-enforced", "cfg=%s: %s, yet the program compiled\n%s" % (cfg, case["why"], "\n".join(l for l in oc.teal.split("\n") if l.startswith(("store 25", "store 26", "load 25", "load 26")))[:300])))
                break
            if oc.crash is not None:
                if col:
                    col.cls("limit:crash:%s" % type(oc.crash).__name__)
            elif col:
                col.cls("limit:rejected-as-required")
            continue
        if oc.crash is not None:
            if isinstance(oc.crash, RecursionError):
                if col:
                    col.cls("discard:program-too-long(F8)")
                continue
            out.append(("crash:%s" % type(oc.crash).__name__, "cfg=%s: %s" % (cfg, str(oc.crash)[:200])))
            break
        if oc.error is not None:
            msg = str(oc.error)
            demand = len(recipe["vars"]) + sum(len(r.get("locals", {})) for r in recipe.get("routines", []))
            if expect is None and "Too many slots" in msg and demand > 230:
                # ABI locals of a routine are scratch-backed when frame pointers are off: the program really needs them
                if col:
                    col.cls("rejected:really-over-256-slots-without-frame-pointers")
                continue
            if expect == "accept" or "slot" in msg.lower():
                out.append(("in-limit-rejected", "cfg=%s: %s; rejected with %s: %s" % (cfg, case.get("why", "program within the 256-slot limit"), type(oc.error).__name__, msg[:200])))
                break
            if col:
                col.cls("rejected-other")
            continue
        iss = diff.static_issue(oc.teal, cfg["version"], recipe["mode"])
        if iss is not None:
            out.append(("illegal-teal:%s" % iss.kind, "cfg=%s: %s\n%s" % (cfg, iss, diff.short_teal(oc.teal, 40))))
            break
        prog = tp.parse(oc.teal)
        # explicit ids: every requested id must appear as a store target
        used = {i.args[0] for i in prog.instrs if i.op in ("store", "load") and i.args}
        for name, d in recipe["vars"].items():
            if d.get("slot") is not None and d.get("kind") not in ("abi", "dyn") and str(d["slot"]) not in used:
                if any(n[0] in ("store", "load") and n[1] == name for n in N.recipe_nodes(recipe)):
                    out.append(("explicit-id-not-used", "cfg=%s: variable %s requested slot %d but no load/store uses it" % (cfg, name, d["slot"])))
                    break
        if out:
            break
        try:
            ir = run_prog(prog, ctx, budget=600_000)
        except (BudgetExceeded, Unsupported):
            if col:
                col.cls("discard:interp-budget")
            continue
        if col:
            col.cls("executed")
        d = diff.compare(er, ir, explicit_slots=True)
        if d is not None:
            out.append(("cell:%s" % d[0], "cfg=%s: %s\n%s" % (cfg, d[1][:1500], diff.short_teal(oc.teal, 60))))
            break
    return out


def judge(case):
    return run_case(case)


def shrinks(case):
    if case.get("expect") == "reject":
        return []
    return case_shrinks(case)


# ---------------------------------------------------------------- generators


def _key(j: int) -> list:
    return ["bytes", ("r%04d" % j).encode().hex()]


@st.composite
def many_vars_recipe(draw, max_nv=180):
    mode = "app"
    nv = draw(st.sampled_from([x for x in [1, 2, 3, 5, 8, 20, 60, 120, 180] if x <= max_nv]))  # 2*nv+ops statements must stay below finding F8's ~480
    level = draw(st.sampled_from([5, 6, 8, 8, 10]))
    vars_ = {}
    kinds = set()
    used_ids = set()
    names = []
    for j in range(nv):
        k = draw(st.integers(0, 9))
        name = "x%d" % j
        t = "U" if draw(st.integers(0, 3)) else "B"
        d = {"t": t, "slot": None}
        if k <= 1:
            s = draw(st.integers(0, 255))
            if s not in used_ids:
                used_ids.add(s)
                d["slot"] = s
                kinds.add("explicit")
            else:
                kinds.add("auto")
        elif k <= 3 and nv <= 120:
            d["kind"] = "abi"
            kinds.add("abi")
        else:
            kinds.add("auto")
        vars_[name] = d
        names.append(name)
    ndyn = draw(st.sampled_from([0, 0, 1, 2])) if nv >= 2 else 0
    plain = [n for n in names if vars_[n].get("kind") != "abi"]
    for j in range(ndyn):
        t = draw(st.sampled_from(["U", "B"]))
        if any(vars_[n]["t"] == t for n in plain):
            vars_["dyn%d" % j] = {"t": t, "slot": None, "kind": "dyn"}
            kinds.add("dyn")
    # routines
    routines = []
    nr = draw(st.sampled_from([0, 0, 1, 2]))
    budget_slots = 250 - nv - 2 * ndyn
    for i in range(nr):
        kind = draw(st.sampled_from(["sub", "sub", "abi"]))
        nl = draw(st.sampled_from([1, 3, 10, 40, 129, 140])) if level >= 8 else draw(st.sampled_from([1, 3, 10]))
        abi_locals = draw(st.booleans())
        if not abi_locals or level < 8:
            nl = min(nl, max(1, budget_slots // 2))
            budget_slots -= nl
        locs = {}
        items = []
        for j in range(nl):
            ln = "l%d_%d" % (i, j)
            locs[ln] = {"t": "U", "slot": None}
            if abi_locals:
                locs[ln]["kind"] = "abi"
            items.append(["store", ln, ["int", 100000 * (i + 1) + j]])
        order = draw(st.permutations(list(range(nl)))) if nl <= 40 else list(range(nl))
        acc = ["int", 0]
        for j in order[:60]:
            ln = "l%d_%d" % (i, j)
            items.append(["gput", _key(9000 + 200 * i + j), ["load", ln]])
        ret = draw(st.sampled_from(["U", "N"])) if kind == "sub" else draw(st.sampled_from(["U", "N"]))
        if ret == "U":
            items.append(["load", "l%d_%d" % (i, order[0])])
        routines.append({"name": "rt%d" % i, "kind": kind, "params": [], "ret": ret, "locals": locs, "body": ["seq", items]})
        kinds.add("routine-abi-locals" if abi_locals else "routine-scratch-locals")
    # main operation sequence
    items = []
    marker = [1000]
    writes = {}

    def store(n):
        marker[0] += 1
        m = marker[0]
        writes[n] = m
        val = ["int", m] if vars_[n]["t"] == "U" else ["bytes", m.to_bytes(4, "big").hex()]
        return ["store", n, val]

    def read(n, j):
        v = ["load", n]
        return ["gput", _key(j), v]

    for n in names:
        items.append(store(n))
    # "last use" gadget: a variable that is read only inside an earlier branch, then - in the last block of the program,
    # after another branch - re-assigned and copied straight into another variable (adjacent store/load) and never read
    # again.  It is still its own cell: the copy must carry the new marker and the earlier read the old one.
    gadget = None
    gc = [n for n in names if vars_[n].get("slot") is None and vars_[n].get("kind") is None]
    if gc and draw(st.integers(0, 2)) == 0:
        gn = gc[draw(st.integers(0, len(gc) - 1))]
        vars_["cp0"] = {"t": vars_[gn]["t"], "slot": None}
        fee_cut = draw(st.sampled_from([0, 10**9]))
        items.append(["if", ["bin", "Lt", ["txn", "fee"], ["int", fee_cut]], ["gput", _key(4000), ["load", gn]], ["gput", _key(4003), ["int", 3]] if draw(st.booleans()) else None, "then"])
        gadget = gn
        kinds.add("last-use-gadget")
    rc = 0
    nops = draw(st.integers(0, min(60, 3 * nv) if nv < 120 else 20))
    for _ in range(nops):
        k = draw(st.integers(0, 9))
        n = names[draw(st.integers(0, nv - 1))]
        if k <= 3:
            items.append(store(n))
        elif k <= 7:
            items.append(read(n, rc))
            rc += 1
        elif k == 8 and routines:
            i = draw(st.integers(0, len(routines) - 1))
            r = routines[i]
            items.append(["callN", i, []] if r["ret"] == "N" else ["gput", _key(8000 + rc), ["call", i, []]])
            rc += 1
        else:
            dyns = [d for d in vars_ if vars_[d].get("kind") == "dyn"]
            if dyns:
                dn = dyns[draw(st.integers(0, len(dyns) - 1))]
                cands = [x for x in plain if vars_[x]["t"] == vars_[dn]["t"]]
                tgt = cands[draw(st.integers(0, len(cands) - 1))]
                items.append(["dsetidx", dn, tgt])
                w = draw(st.integers(0, 2))
                if w == 0:
                    marker[0] += 1
                    items.append(["dstore", dn, ["int", marker[0]] if vars_[dn]["t"] == "U" else ["bytes", marker[0].to_bytes(4, "big").hex()]])
                items.append(["gput", _key(7000 + rc), ["dload", dn, vars_[dn]["t"]]])
                rc += 1
                items.append(read(tgt, rc))
                rc += 1
    # explicitly numbered variables that are only ever reached INDIRECTLY (through a DynamicScratchVar / index()), with
    # small ids that the automatic numbering would otherwise hand out; and one shared by main and a routine
    autos = sum(1 for n in names if vars_[n].get("slot") is None and vars_[n].get("kind") != "abi")
    if level >= 5 and draw(st.integers(0, 2)) == 0:
        free = [x for x in range(0, max(1, min(autos, 40))) if x not in used_ids]
        if free:
            sid = free[draw(st.integers(0, len(free) - 1))]
            used_ids.add(sid)
            vars_["ind0"] = {"t": "U", "slot": sid}
            vars_["dynI"] = {"t": "U", "slot": None, "kind": "dyn"}
            kinds.add("explicit-indirect-only")
            marker[0] += 1
            items.append(["dsetidx", "dynI", "ind0"])
            items.append(["dstore", "dynI", ["int", marker[0]]])
            items.append(["gput", _key(5000), ["index", "ind0"]])
            # every automatic variable is read back below; the indirect one through the dynamic variable at the end
            tail_ind = [["dsetidx", "dynI", "ind0"], ["gput", _key(5001), ["dload", "dynI", "U"]]]
        else:
            tail_ind = []
    else:
        tail_ind = []
    if routines and draw(st.integers(0, 2)) == 0:
        free = [x for x in range(0, max(1, min(autos, 40))) if x not in used_ids]
        if free:
            sid = free[draw(st.integers(0, len(free) - 1))]
            used_ids.add(sid)
            vars_["sh0"] = {"t": "U", "slot": sid}
            kinds.add("explicit-shared-with-routine")
            marker[0] += 1
            items.append(["store", "sh0", ["int", marker[0]]])
            r0 = routines[0]
            marker[0] += 1
            r0["body"][1].insert(0, ["store", "sh0", ["int", marker[0]]])
            names_sh = True
            items.append(["gput", _key(5002), ["load", "sh0"]])
    # index() of explicitly numbered variables
    for n in names:
        if vars_[n].get("slot") is not None and draw(st.integers(0, 2)) == 0:
            items.append(["gput", _key(6000 + vars_[n]["slot"]), ["index", n]])
    # read everything back
    for j, n in enumerate(names):
        if n != gadget or draw(st.integers(0, 3)) == 0:
            items.append(read(n, 1000 + j))
    for i, r in enumerate(routines):
        items.append(["callN", i, []] if r["ret"] == "N" else ["pop", ["call", i, []]])
    if "sh0" in vars_:
        items.append(["gput", _key(5003), ["load", "sh0"]])
    items += tail_ind
    # an explicitly numbered variable whose every mention sits in a later block: written, copied straight away (adjacent
    # store/load, no other direct load) and then read back INDIRECTLY through a DynamicScratchVar
    if level >= 5 and draw(st.integers(0, 2)) == 0:
        free = [x for x in range(0, 256) if x not in used_ids]
        sid = free[draw(st.integers(0, len(free) - 1))]
        used_ids.add(sid)
        vars_["late0"] = {"t": "U", "slot": sid}
        vars_["cpL"] = {"t": "U", "slot": None}
        vars_["dynL"] = {"t": "U", "slot": None, "kind": "dyn"}
        kinds.add("explicit-mentioned-only-in-a-later-block")
        marker[0] += 1
        items.append(["if", ["bin", "Lt", ["txn", "fee"], ["int", draw(st.sampled_from([0, 10**9]))]], ["gput", _key(4010), ["int", 1]], None, "then"])
        items.append(["store", "late0", ["int", marker[0]]])
        items.append(["store", "cpL", ["load", "late0"]])
        items.append(["gput", _key(4011), ["load", "cpL"]])
        items.append(["dsetidx", "dynL", "late0"])
        items.append(["gput", _key(4012), ["dload", "dynL", "U"]])
    if gadget is not None:
        items.append(["if", ["bin", "Lt", ["txn", "fee"], ["int", draw(st.sampled_from([0, 10**9]))]], ["gput", _key(4001), ["int", 1]], None, "then"])
        items.append(store(gadget))
        items.append(["store", "cp0", ["load", gadget]])
        items.append(["gput", _key(4002), ["load", "cp0"]])
    items.append(["int", 1])
    recipe = {"mode": mode, "level": level, "vars": vars_, "routines": routines, "main": ["seq", items], "kinds": sorted(kinds), "nv": nv}
    return recipe


@st.composite
def limit_case(draw):
    r = draw(st.sampled_from([0, 1, 2, 10, 16]))
    total = draw(st.sampled_from([255, 256, 256, 257, 258, 260]))
    dup = draw(st.integers(0, 5)) == 0 and r >= 2
    ids = draw(st.lists(st.integers(0, 255), min_size=r, max_size=r, unique=True))
    if dup:
        ids[1] = ids[0]
        total = draw(st.sampled_from([10, 100, 250]))
    vars_ = {}
    items = []
    for j in range(total):
        name = "m%d" % j
        vars_[name] = {"t": "U", "slot": ids[j] if j < r else None}
        items.append(["store", name, ["int", j]])
    for j in draw(st.lists(st.integers(0, total - 1), min_size=1, max_size=5)):
        items.append(["gput", _key(j), ["load", "m%d" % j]])
    items.append(["int", 1])
    recipe = {"mode": "app", "level": 5, "vars": vars_, "routines": [], "main": ["seq", items], "kinds": ["limit"], "nv": total}
    if dup and draw(st.booleans()):
        # the second requester is reached only through a DynamicScratchVar
        recipe["vars"]["m1"] = {"t": "U", "slot": ids[0]}
        recipe["vars"]["dd"] = {"t": "U", "slot": None, "kind": "dyn"}
        main = [it for it in recipe["main"][1] if not (it[0] in ("store", "gput") and (it[1] == "m1" or (it[0] == "gput" and it[2] == ["load", "m1"])))]
        main = main[:-1] + [["dsetidx", "dd", "m1"], ["dstore", "dd", ["int", 9]], ["gput", _key(4000), ["dload", "dd", "U"]], ["int", 1]]
        recipe["main"] = ["seq", main]
        recipe["level"] = 5
        return recipe, "reject", "two variables request the same slot id %d (one of them is used only through a DynamicScratchVar)" % ids[0]
    if dup:
        return recipe, "reject", "two variables request the same slot id %d" % ids[0]
    if total > 256:
        return recipe, "reject", "%d distinct variables (%d requested ids + %d automatic) need more than 256 slots" % (total, r, total - r)
    return recipe, "accept", "%d distinct variables (%d requested ids + %d automatic) fit in 256 slots" % (total, r, total - r)


@st.composite
def case_strategy(draw, tier):
    if draw(st.integers(0, 5)) == 0:
        recipe, expect, why = draw(limit_case())
        cfgs = [{"version": draw(st.sampled_from([5, 8, 10]))}, {"version": 10, "scratch_slots": draw(st.booleans())}]
        return {"recipe": recipe, "configs": cfgs, "expect": expect, "why": why}
    recipe = draw(many_vars_recipe())
    lv = recipe["level"]
    cfgs = []
    for v in sorted({lv, 10, draw(st.integers(lv, 10))}):
        cfg = {"version": v}
        if draw(st.integers(0, 2)) == 0:
            cfg["scratch_slots"] = draw(st.booleans())
        if v >= 8 and draw(st.integers(0, 2)) == 0:
            cfg["frame_pointers"] = draw(st.booleans())
        cfgs.append(cfg)
    return {"recipe": recipe, "configs": cfgs}


def shard(tier, seedv, k, n, col: Collector):
    def body(case):
        col.case()
        recipe = case["recipe"]
        res = run_case(case, col)
        for kd in recipe.get("kinds", []):
            col.cls("kind:" + kd)
        if case.get("expect") or (recipe.get("nv", 0) >= 3 and len(recipe.get("kinds", [])) >= 2):
            col.nontriv(sha(recipe))
        col.cls("vars:%s" % ("1-8" if recipe["nv"] <= 8 else "9-120" if recipe["nv"] <= 120 else "121+"))
        for b, d in res:
            col.fail(b, d, case)
        if not res and len(col.samples) < 3 and 3 <= recipe["nv"] <= 8 and not case.get("expect"):
            col.sample({"vars": recipe["vars"], "main": recipe["main"], "configs": case["configs"]})

    hyp_run(body, case_strategy(tier), N_EX[tier], seedv, key=lambda c: c["recipe"], col=col)
