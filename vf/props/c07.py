"""C07 - ABI decoding and element access return the encoded components (reference codec: algosdk.abi)."""
# NOTE: no `from __future__ import annotations`
import json

from hypothesis import strategies as st

from .. import diff
from ..abi import progs as P
from ..abi import shapes as S
from ..avm.context import Ctx
from ..avm.interp import BudgetExceeded, run_prog
from ..avm.prims import Unsupported
from ..runner import Collector, hyp_run, sha
from ..teal import parser as tp
from .c06 import compile_prog

ID = "C07"
LEVEL = "exploration"
RULE = (
    "(shape, value) as in C06; the reference encoding (algosdk) is passed as application argument 0; the program "
    "decode()s it and follows an access path of 0..3 steps (tuple index, named field, array index constant or computed "
    "from another argument), then logs get() / length() / encode() of the reached component; back-ends main routine and "
    "Subroutine (frame cells at v8+), versions 6/8/10. Oracle: logged bytes == reference encoding of the component "
    "(scalars via itob), length() == element count. Out-of-range array indices (len, len+1, 255, 256, 2^16, 2^63 as "
    "computed index) must make the run fail (or be rejected at build time for constant indices). non-trivial = the "
    "element is not the first and lies after a bool run or a dynamic member, or is reached through >= 2 steps; "
    "out-of-range cases counted separately; distinct by (shape, value, path). Enumerated family: static arrays of "
    "126..130 elements (uint8/uint16/bool/uint64) whose every element is read into its own ABI value inside an "
    "ABIReturnSubroutine with an output (more ABI values than a frame holds), versions 6/8/10 and frame pointers off."
)
ASSUMPTIONS = ["algosdk.abi is the ARC-4 reference codec", "vf/avm extract/getbit/substring semantics"]
SHARDS = {"quick": 16, "thorough": 16}
N_EX = {"quick": 60, "thorough": 2500}
MIN_NONTRIVIAL = {"quick": 150, "thorough": 2500}
VERSIONS = {"quick": [6, 8, 10], "thorough": [6, 7, 8, 9, 10]}


def _ctx(enc, dyn):
    return Ctx(group=[{"ApplicationArgs": [enc] + [i.to_bytes(8, "big") for i in dyn], "ApplicationID": 1001, "TypeEnum": 6}])


def run_case(case, col=None):
    import pyteal as pt

    s = case["shape"]
    v = S.unjson(s, case["value"])
    steps, final = case["steps"], case["final"]
    out = []
    try:
        enc = S.encode(s, v)
    except Exception:  # noqa  (the reference codec refuses the value, e.g. an encoding longer than a uint16 offset allows)
        if col:
            col.cls("discard:reference-codec-refuses-value")
        return out
    if len(enc) > 1500:
        if col:
            col.cls("discard:encoding-too-long")
        return out
    oob = case.get("oob")
    steps_run = [list(x) for x in steps]
    if oob is not None:
        steps_run[oob["pos"]][1] = oob["index"]
    dyn = [stp[1] for stp in steps_run if stp[0] == "elem" and stp[2] == "dyn"]
    if oob is None:
        cs, cv = P.component(s, v, steps)
        want = P.expected_final(cs, cv, final)
        if len(want) > 1000:
            if col:
                col.cls("discard:component-over-1000-bytes(log limit)")
            return out
    for cfg in case["configs"]:
        kind, teal, _a = compile_prog(lambda: (P.build_access_program(pt, s, steps_run, final, cfg["backend"], dyn), []), cfg["version"], cfg.get("fp"))
        if kind == "rejected":
            if oob is not None and steps_run[oob["pos"]][2] == "const":
                if col:
                    col.cls("oob:rejected-at-build")
                continue
            if "Too many slots" in str(teal):
                continue
            out.append(("access-rejected", "cfg=%s: decode/access program for %s path %s was rejected: %s: %s" % (cfg, S.sdk_str(s), steps, type(teal).__name__, str(teal)[:200])))
            break
        if kind == "crash":
            if isinstance(teal, RecursionError):
                continue
            out.append(("build-crash:%s" % type(teal).__name__, "cfg=%s: %s: %s" % (cfg, type(teal).__name__, str(teal)[:200])))
            break
        iss = diff.static_issue(teal, cfg["version"])
        if iss is not None:
            out.append(("illegal-teal:%s" % iss.kind, "cfg=%s: program for %s is not legal TEAL: %s\n%s" % (cfg, S.sdk_str(s), iss, diff.short_teal(teal, 50))))
            break
        try:
            prog = tp.parse(teal)
        except tp.TealSyntaxError as e:
            out.append(("unparsable", str(e)))
            break
        try:
            r = run_prog(prog, _ctx(enc, dyn))
        except (BudgetExceeded, Unsupported) as e:
            if col:
                col.cls("discard:%s" % type(e).__name__)
            continue
        if col:
            col.cls("executed:%s" % cfg["backend"])
        if oob is not None:
            if r.verdict != "fail":
                logs = [e[1] for e in r.events if e[0] == "log"]
                out.append(("oob-returned-data", "cfg=%s: %s = %r, path %s with out-of-range index %d (length %d) did not fail; it returned %s\n%s" % (
                    cfg, S.sdk_str(s), case["value"], steps, oob["index"], oob["length"], logs[-1].hex() if logs else None, diff.short_teal(teal, 60))))
                break
            if col:
                col.cls("oob:failed-as-required")
            continue
        if r.verdict == "fail":
            out.append(("run-failed:%s" % r.panic, "cfg=%s: accessing %s of %s = %r failed (%s) at line %d\n%s" % (cfg, steps, S.sdk_str(s), case["value"], r.panic_msg, r.panic_line + 1, diff.short_teal(teal, 60))))
            break
        logs = [e[1] for e in r.events if e[0] == "log"]
        if not logs or logs[-1] != want:
            out.append(("component", "cfg=%s: %s = %r, path %s %s() gives %s, the encoded component is %s\n%s" % (cfg, S.sdk_str(s), case["value"], steps, final, logs[-1].hex() if logs else None, want.hex(), diff.short_teal(teal, 70))))
            break
    return out


def run_wide(case, col=None):
    """every element of a T[n] (n around 128) is read into its own ABI value inside an ABIReturnSubroutine with an
    output - more ABI values than a frame can hold; the sum of the first two and last four values read must be the sum of
    those components (reading all of them back would exceed finding F8's program length)"""
    import pyteal as pt

    n, elem, vals = case["n"], case["elem"], case["values"]
    s = ["sa", elem, n] if case.get("static", True) else ["da", elem]
    enc = S.encode(s, vals)
    want = sum(int(vals[j]) for j in sorted({0, 1, n - 4, n - 3, n - 2, n - 1}))
    out = []

    def build():
        def inner(output):
            arr = S.pt_spec(pt, s).new_instance()
            items = [S.pt_spec(pt, elem).new_instance() for _ in range(n)]
            stmts = [arr.decode(pt.Txn.application_args[0])]
            for i, it in enumerate(items):
                stmts.append(arr[i].store_into(it))
            picked = sorted({0, 1, n - 4, n - 3, n - 2, n - 1})
            return pt.Seq(*stmts, output.set(pt.Add(*[items[j].get() for j in picked])))

        g = {"pt": pt, "Expr": pt.Expr, "inner": inner}
        exec(compile("def wide(*, output: pt.abi.Uint64) -> Expr:\n    return inner(output)\n", "<c07-wide>", "exec", dont_inherit=True), g)
        f = pt.ABIReturnSubroutine(g["wide"])
        res = pt.abi.Uint64()
        return pt.Seq(f().store_into(res), pt.Log(pt.Itob(res.get())), pt.Int(1)), []

    for cfg in case["configs"]:
        kind, teal, _a = compile_prog(build, cfg["version"], cfg.get("fp"))
        if kind == "rejected":
            if "Too many slots" in str(teal):
                continue
            out.append(("access-rejected", "cfg=%s: reading all %d elements of %s was rejected: %s" % (cfg, n, S.sdk_str(s), str(teal)[:200])))
            break
        if kind == "crash":
            if isinstance(teal, RecursionError):
                continue
            out.append(("build-crash:%s" % type(teal).__name__, "cfg=%s: %s" % (cfg, str(teal)[:200])))
            break
        iss = diff.static_issue(teal, cfg["version"])
        if iss is not None:
            out.append(("illegal-teal:%s" % iss.kind, "cfg=%s: program reading all %d elements of %s into ABI values is not legal TEAL: %s" % (cfg, n, S.sdk_str(s), iss)))
            break
        try:
            r = run_prog(tp.parse(teal), _ctx(enc, []), budget=2_000_000)
        except (BudgetExceeded, Unsupported) as e:
            if col:
                col.cls("discard:%s" % type(e).__name__)
            continue
        if col:
            col.cls("executed:wide")
        logs = [e[1] for e in r.events if e[0] == "log"]
        if r.verdict == "fail" or not logs or logs[-1] != want.to_bytes(8, "big"):
            out.append(("component", "cfg=%s: the %d elements of %s read into ABI values sum to %s, the components sum to %d (%s)" % (cfg, n, S.sdk_str(s), logs[-1].hex() if logs else None, want, r.panic_msg)))
            break
    return out


def judge(case):
    if case.get("kind") == "wide":
        return run_wide(case)
    return run_case(json.loads(json.dumps(case)))


def shrinks(case):
    if case.get("kind") == "wide":
        return []
    if len(case["configs"]) > 1:
        for cfg in case["configs"]:
            yield dict(case, configs=[cfg])
    if case.get("oob") is None and case["final"] != "encode":
        yield dict(case, final="encode")


def _nontrivial(s, steps):
    if len(steps) >= 2:
        return True
    cur = s
    for stp in steps:
        if stp[0] in ("idx", "field"):
            i = stp[1] if stp[0] == "idx" else stp[2]
            ms = S.members(cur)
            if i > 0 and any(m[0] == "bool" or S.is_dynamic(m) for m in ms[:i]):
                return True
            cur = ms[i]
        else:
            if stp[1] > 0 and (cur[1][0] == "bool" or S.is_dynamic(cur[1])):
                return True
            cur = cur[1]
    return False


@st.composite
def case_strategy(draw, tier):
    s = draw(S.shape_strategy(max_depth=3))
    if s[0] in P.LEAF:
        # a bare scalar has nothing to index: embed it behind a bool run / dynamic member
        pre = draw(st.sampled_from([[["bool"]], [["bool"], ["bool"]], [["string"]], [["uint", 16], ["dbytes"]], []]))
        s = ["tuple", pre + [s] + draw(st.sampled_from([[], [["bool"]], [["string"]]]))]
    boundary = draw(st.integers(0, 9)) == 0
    if boundary:
        # a static member whose encoding is 255/256/257 bytes long, at a small head offset and not last
        big = draw(st.sampled_from(S.BOUNDARY_STATIC))
        pre = draw(st.sampled_from([[], [["bool"]], [["uint", 8]], [["uint", 64], ["bool"], ["bool"]], [["sbytes", 255]], [["sbytes", 4], ["uint", 16]]]))
        post = draw(st.sampled_from([[["uint", 8]], [["bool"]], [["string"]], [["uint", 64], ["string"]]]))
        s = ["tuple", pre + [big] + post]
    dyngap = (not boundary) and draw(st.integers(0, 7)) == 0
    if dyngap:
        # a dynamic member whose end is the next dynamic member's offset, with bool runs / static members in between
        dyn = [["string"], ["dbytes"], ["da", ["uint", 8]], ["da", ["bool"]]]
        stat = [["uint", 8], ["uint", 64], ["byte"], ["sbytes", 4]]
        gap = []
        for _ in range(draw(st.integers(1, 3))):
            gap += [["bool"]] * draw(st.sampled_from([1, 1, 2, 7, 8, 9]))
            gap += [draw(st.sampled_from(stat))] * draw(st.integers(0, 1))
        pre = [["bool"]] * draw(st.sampled_from([0, 0, 1, 3]))
        ms = pre + [draw(st.sampled_from(dyn))] + gap + [draw(st.sampled_from(dyn))] + [draw(st.sampled_from(dyn + stat)) for _ in range(draw(st.integers(0, 2)))]
        s = ["tuple", ms]
    v = draw(S.value_strategy(s))
    if dyngap:
        target = draw(st.sampled_from([len(pre), len(pre) + len(gap) + 1, draw(st.integers(0, len(ms) - 1))]))
        steps, final = [["idx", target]], draw(st.sampled_from(["encode", "encode", "get" if ms[target][0] in ("string", "dbytes") else "encode"]))
    elif boundary:
        steps, final = [["idx", len(pre)]], draw(st.sampled_from(["encode", "encode", "length" if big[0] in ("sa", "tuple") else "get" if big[0] == "sbytes" else "encode"]))
    else:
        steps, final, _cs = draw(P.path_strategy(s, v))
    case = {"shape": s, "value": S.jsonable(s, v), "steps": steps, "final": final}
    # out-of-range variant: replace the last array step's index
    elem_pos = [i for i, stp in enumerate(steps) if stp[0] == "elem"]
    if elem_pos and draw(st.integers(0, 3)) == 0:
        pos = elem_pos[-1]
        # length of the array indexed at that step
        cs, cv = P.component(s, v, steps[:pos])
        n = len(cv)
        idx = draw(st.sampled_from([n, n + 1, 255, 256, 2**16, 2**63]))
        if idx >= n:
            case["steps"] = steps[: pos + 1]
            case["final"] = "encode"
            case["steps"][pos] = [steps[pos][0], steps[pos][1], "dyn" if idx > 255 else steps[pos][2]]
            case["oob"] = {"pos": pos, "index": idx, "length": n, "elem": cs[1], "arr": cs[0]}
    cfgs = []
    for ver in VERSIONS[tier]:
        backend = draw(st.sampled_from(["main", "sub"]))
        cfg = {"version": ver, "backend": backend}
        if backend == "sub" and ver >= 8 and draw(st.integers(0, 3)) == 0:
            cfg["fp"] = False
        cfgs.append(cfg)
    case["configs"] = cfgs
    return case


def shard(tier, seedv, k, n, col: Collector):
    def body(case):
        col.case()
        res = run_case(case, col)
        if case.get("oob"):
            col.cls("kind:out-of-range")
            col.nontriv(sha(["oob", case["shape"], case["value"], case["steps"], case["oob"]["index"]]))
        else:
            col.cls("final:" + case["final"])
            col.cls("steps:%d" % len(case["steps"]))
            if _nontrivial(case["shape"], case["steps"]):
                col.nontriv(sha([case["shape"], case["value"], case["steps"], case["final"]]))
        for b, d in res:
            col.fail(b, d, case)
        if not res and len(col.samples) < 3 and len(case["steps"]) >= 2:
            col.sample({"type": S.sdk_str(case["shape"]), "value": case["value"], "steps": case["steps"], "final": case["final"], "oob": case.get("oob")})

    hyp_run(body, case_strategy(tier), N_EX[tier], seedv, key=lambda c: [c["shape"], c["value"], c["steps"], c["final"], c.get("oob")], col=col)
    # enumerated: arrays of 126..130 elements, every element in its own ABI value inside an ABI routine with an output
    idx = 0
    for n_ in (126, 127, 128, 129, 130):
        for elem in (["uint", 8], ["uint", 16], ["bool"], ["uint", 64]):
            for version, fp in ((8, None), (10, None), (8, False), (6, None)):
                idx += 1
                if idx % n != k:
                    continue
                vals = [((7 * i + n_) % 251) if elem[0] == "uint" else bool((i * 5 + n_) % 3 == 0) for i in range(n_)]
                case = {"kind": "wide", "n": n_, "elem": elem, "values": vals, "configs": [dict({"version": version}, **({"fp": fp} if fp is not None else {}))]}
                col.case()
                col.cls("wide-array:%d" % n_)
                col.nontriv(sha(["wide", n_, elem, version, fp]))
                for b, d in run_wide(case, col):
                    col.fail(b, d, case)
