"""C03 - compile options change cost and shape, never behaviour (metamorphic/differential across configurations)."""
from __future__ import annotations

from hypothesis import strategies as st

from .. import diff
from ..avm.interp import BudgetExceeded, run_prog
from ..avm.prims import Unsupported
from ..recipe import gen, gen_sub, legal, nodes as N
from ..runner import Collector, hyp_run, sha
from ..shrink import case_shrinks
from ..teal import parser as tp

ID = "C03"
LEVEL = "exploration"
RULE = (
    "Programs from the core and subroutine grammars (biased to optimiser triggers: adjacent store/load, variables with "
    "several stores/loads in different blocks, explicitly numbered and dynamically indexed slots, MaybeValue temporaries, "
    "slots shared between routines, ABI-backed locals) compiled under every (scratch_slots x frame_pointers) setting at "
    "4..5 versions from the lowest accepting one to 10; each variant executed on 3 generated contexts. Oracle "
    "(metamorphic, no evaluator involved): all variants give the same verdict, value, ordered logs/state writes/inner "
    "transactions and final contents of explicitly numbered slots; for variants that differ only in scratch_slots, the "
    "stack contents at every routine exit (at retsub: everything above the caller's own values; at return: the whole stack) are identical. non-trivial = the optimiser changed the text "
    "of some variant or the two calling conventions emitted different code, and some context ran without failing; "
    "distinct by recipe."
)
ASSUMPTIONS = [
    "vf/avm semantics; opcode cost is not compared (the property allows it to change)",
    "slot numbers of automatically numbered variables may differ between variants (only explicitly numbered slots are compared)",
    "finding F6 trigger excluded by construction (guard loads), finding P1 (operand-nested Return) outside the generators (R2)",
]
SHARDS = {"quick": 16, "thorough": 16}
N_EX = {"quick": 45, "thorough": 2000}
BUDGET = {"quick": 50, "thorough": 100}
MIN_NONTRIVIAL = {"quick": 100, "thorough": 2000}


def exits(trace, sigs):
    """Routine exits with the part of the stack the exiting routine is responsible for: at retsub everything above the
    caller's values (the caller's part legitimately differs between variants: it holds the caller's *spilled local
    slots*, and the optimiser changes how many slots there are); at `return` from the main routine the whole stack."""
    out = []
    depth = 0
    for ev in trace:
        if ev[0] == "callsub":
            depth += 1
        elif ev[0] == "retsub":
            depth -= 1
            _k, label, snap, after, _c, _a, _r = ev
            sg = sigs.get(label)
            if sg is None or snap is None:
                continue
            out.append(("retsub", label.rsplit("_", 1)[0], tuple(after[max(0, len(snap) - sg[0]):])))
        elif ev[0] == "return":
            if depth == 0:
                out.append(("return", tuple(ev[1]), ev[2]))
            else:
                out.append(("return-in-routine", ev[2]))
    return out


def run_case(case, col=None):
    recipe = case["recipe"]
    ctxs = diff.ctx_list(case)
    explicit = sorted({d["slot"] for d in recipe.get("vars", {}).values() if d.get("slot") is not None})
    variants = []  # (cfg, teal, prog)
    prior = case.get("prior")
    for cfg in case["configs"]:
        opt_obj = None
        if prior is not None and cfg.get("scratch_slots") and cfg.get("reuse_options"):
            # a user naturally re-uses one OptimizeOptions object for several programs (Router.compile_program does it
            # for approval and clear-state): compile another program with the same object first
            opt_obj = diff.optimize_of(cfg)
            diff.compile_recipe(prior, cfg, optimize_obj=opt_obj)
            if col:
                col.cls("variant:options-object-reused-after-another-program")
        oc = diff.compile_recipe(recipe, cfg, optimize_obj=opt_obj)
        if oc.teal is None:
            if col:
                col.cls("not-compiled")
            continue
        try:
            prog = tp.parse(oc.teal)
        except tp.TealSyntaxError:
            if col:
                col.cls("unparsable(C04's business)")
            continue
        variants.append((cfg, oc.teal, prog))
    out = []
    for cfg, teal, _p in variants:
        iss = diff.unassemblable(teal, cfg["version"], recipe.get("mode", "app"))
        if iss is not None:
            out.append(("unassemblable:%s" % iss.kind, "cfg=%s: the emitted program cannot be assembled: %s\n--- TEAL ---\n%s" % (diff.cfg_key(cfg), iss, diff.short_teal(teal, 60))))
            return out
    if len(variants) < 2:
        case["_nt"] = False
        return out
    bodies = {}
    for cfg, teal, _p in variants:
        bodies.setdefault(cfg["version"], set()).add(teal.split("\n", 1)[-1])
    differs = any(len(b) > 1 for b in bodies.values())
    ran_ok = False
    results = {}
    for vi, (cfg, teal, prog) in enumerate(variants):
        for ci, c in enumerate(ctxs):
            try:
                results[(vi, ci)] = run_prog(prog, c, trace=True)
            except BudgetExceeded:
                results[(vi, ci)] = None
            except Unsupported:
                results[(vi, ci)] = None
    for ci in range(len(ctxs)):
        ref = None
        for vi, (cfg, teal, prog) in enumerate(variants):
            r = results[(vi, ci)]
            if r is None:
                continue
            if r.verdict != "fail":
                ran_ok = True
            if ref is None:
                ref = (vi, r)
                continue
            rv, rr = ref
            a, b = rr.observable(), r.observable()
            if a != b:
                kind = "verdict" if a[0] != b[0] else ("value" if a[1] != b[1] else "effects")
                out.append(("diverge:%s" % kind, "ctx#%d: %s gives %s but %s gives %s\n--- %s ---\n%s\n--- %s ---\n%s" % (
                    ci, diff.cfg_key(variants[rv][0]), diff.describe_result(rr), diff.cfg_key(cfg), diff.describe_result(r),
                    diff.cfg_key(variants[rv][0]), diff.short_teal(variants[rv][1], 60), diff.cfg_key(cfg), diff.short_teal(teal, 60))))
                break
            if r.verdict != "fail":
                for s in explicit:
                    if rr.scratch.get(s, 0) != r.scratch.get(s, 0):
                        out.append(("diverge:slot", "ctx#%d: user-numbered slot %d ends as %r under %s but %r under %s" % (ci, s, rr.scratch.get(s, 0), diff.cfg_key(variants[rv][0]), r.scratch.get(s, 0), diff.cfg_key(cfg))))
                        break
        if out:
            break
        # pairs that differ only in scratch_slots: identical stacks at every routine exit
        bykey = {}
        for vi, (cfg, teal, prog) in enumerate(variants):
            bykey.setdefault((cfg["version"], cfg.get("frame_pointers")), []).append(vi)
        for key, vis in bykey.items():
            base = None
            for vi in vis:
                r = results[(vi, ci)]
                if r is None or r.verdict == "fail":
                    continue
                ex = exits(r.trace, diff.label_sigs(recipe, variants[vi][2]))
                if base is None:
                    base = (vi, ex)
                elif ex != base[1]:
                    k = 0
                    while k < min(len(ex), len(base[1])) and ex[k] == base[1][k]:
                        k += 1
                    out.append(("exit-stack", "ctx#%d: routine exit #%d differs between %s and %s: %r vs %r" % (
                        ci, k, diff.cfg_key(variants[base[0]][0]), diff.cfg_key(variants[vi][0]),
                        base[1][k] if k < len(base[1]) else None, ex[k] if k < len(ex) else None)))
                    break
            if out:
                break
        if out:
            break
    case["_nt"] = differs and ran_ok
    return out


def judge(case):
    return run_case(dict(case))


def shrinks(case):
    return case_shrinks(case)


def _configs(draw, recipe):
    lo = legal.min_version(recipe)
    vs = sorted({lo, 10, 9, 8, draw(st.integers(lo, 10))} - {v for v in (8, 9, 10) if v < lo})
    cfgs = []
    for v in vs:
        for ss in (False, True):
            fps = [None] if v < 8 else [False, True]
            for fp in fps:
                cfg = {"version": v, "scratch_slots": ss}
                if fp is not None:
                    cfg["frame_pointers"] = fp
                cfgs.append(cfg)
    cfgs.append({"version": vs[-1]})
    # the optimiser-on variants once more, this time with an OptimizeOptions object that already compiled another program
    for c in list(cfgs):
        if c.get("scratch_slots") and c["version"] in (vs[0], vs[-1]):
            cfgs.append(dict(c, reuse_options=True))
    return cfgs


@st.composite
def case_strategy(draw, tier):
    w = draw(st.integers(0, 10))
    if w == 10:
        # C10's storage-cell programs (explicitly numbered / indirectly reached / last-use variables): the optimiser's
        # skip set and dependency search are exercised by them
        from .c10 import many_vars_recipe

        recipe = draw(many_vars_recipe(max_nv=8))
    elif w < 4:
        recipe = draw(gen.core_recipe(max_budget=BUDGET[tier], opts={"abi_vars": 1}))
    else:
        recipe = draw(gen_sub.sub_recipe(max_budget=BUDGET[tier]))
    ctxs = [draw(gen.one_context(recipe["mode"])) for _ in range(3)]
    # a small unrelated program with user-numbered, dynamically indexed and shared slots (non-empty optimiser skip set)
    prior = {"mode": recipe["mode"], "level": 5, "vars": {"pa": {"t": "U", "slot": draw(st.integers(0, 255))}, "pb": {"t": "U", "slot": None}, "pd": {"t": "U", "slot": None, "kind": "dyn"}},
             "routines": [], "main": ["seq", [["store", "pa", ["int", 1]], ["store", "pb", ["int", 2]], ["dsetidx", "pd", "pb"], ["dstore", "pd", ["int", 3]], ["nary", "Add", [["load", "pa"], ["dload", "pd", "U"]]]]]}
    return {"recipe": recipe, "prior": prior, "ctxs": [c.to_json() for c in ctxs], "configs": _configs(draw, recipe)}


def shard(tier, seedv, k, n, col: Collector):
    def body(case):
        col.case()
        res = run_case(case, col)
        recipe = case["recipe"]
        if case.pop("_nt", False):
            col.nontriv(sha(recipe))
        col.cls("gen:" + ("storage-cells" if recipe.get("nv") else ("sub" if recipe.get("routines") else "core")))
        if recipe.get("f6_guards"):
            col.cls("excluded-by-construction:F6-guard-loads", recipe["f6_guards"])
        for b, d in res:
            col.fail(b, d, case)
        if not res and len(col.samples) < 2 and recipe.get("routines"):
            col.sample({"main": recipe["main"], "configs": [diff.cfg_key(c) for c in case["configs"]]})

    hyp_run(body, case_strategy(tier), N_EX[tier], seedv, key=lambda c: c["recipe"], col=col)
