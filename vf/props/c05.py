"""C05 - emitted code keeps stack and type discipline on every path (abstract interpretation per emitted program
+ dynamic type/underflow check on executions)."""
from __future__ import annotations

from hypothesis import strategies as st

from .. import diff, progs
from ..avm.interp import BudgetExceeded, run_prog
from ..avm.prims import Unsupported
from ..recipe import gen, nodes as N
from ..runner import Collector, hyp_run, sha
from ..shrink import case_shrinks
from ..teal import absint, parser as tp
from . import c20

ID = "C05"
LEVEL = "exploration"
RULE = (
    "Programs: Hypothesis-generated recipes (core grammar, subroutine call graphs incl. recursion and by-ref params, "
    "degenerate control-flow shapes) under random version/scratch_slots/frame_pointers/assembleConstants configurations, "
    "plus the constructor sweep of C04 at v6/v8/v10. Oracle 1 (static): abstract interpretation of each emitted program "
    "over its CFG (relative stack height equal on all paths to every instruction; no pop below what the routine owns - "
    "main's entry, a routine's declared arguments, a proto frame's base; every retsub at the height of the routine's "
    "declared results; callsub applies the callee's declared signature; frame_dig/bury inside the frame; no op applied "
    "to a definitely wrong type). Oracle 2 (dynamic): executing programs without anytype nodes on generated contexts "
    "never panics with a type or stack-underflow error. non-trivial = emitted program has >=1 join reached at equal "
    "height and (a loop or a subroutine or a frame); distinct by emitted text."
)
ASSUMPTIONS = [
    "stack signatures of opcodes in vf/teal/langspec.py (self-tested: all golden .teal files analyse clean, hand-written ill-formed programs are flagged)",
    "routines are identified by label prefix = recipe routine name (unique by construction)",
    "R2: Break/Continue/Return are generated in statement position only (operand-nested exits are finding P1)",
]
SHARDS = {"quick": 16, "thorough": 16}
N_EX = {"quick": 60, "thorough": 2500}
MIN_NONTRIVIAL = {"quick": 300, "thorough": 3000}


def analyse_text(teal, mode, recipe=None):
    prog = tp.parse(teal)
    declared = None
    if recipe is not None and recipe.get("routines"):
        from ..teal.static import Cfg

        declared = progs.sigs_for_labels(recipe, list(Cfg(prog).sub_entries))
    an = absint.analyse(prog, mode, declared)
    return prog, an


def judge_recipe(case, col=None):
    recipe = case["recipe"]
    mode = recipe.get("mode", "app")
    out = []
    ctxs = diff.ctx_list(case) if case.get("ctxs") else []
    seen = set()
    for cfg in case["configs"]:
        oc = diff.compile_recipe(recipe, cfg)
        if oc.teal is None:
            if col:
                col.cls("gen:not-compiled" if not recipe.get("illtyped") else "ill-typed:rejected-as-it-should")
            continue
        if recipe.get("illtyped") and col:
            col.cls("ill-typed:ACCEPTED (analysed)")
        body = oc.teal.split("\n", 1)[-1]
        if body in seen:
            continue
        seen.add(body)
        try:
            prog, an = analyse_text(oc.teal, mode, recipe)
        except tp.TealSyntaxError:
            if col:
                col.cls("unparsable(C04's business)")
            continue
        if col:
            col.cls("gen:analysed")
            col.cls("routines-analysed", an.analysed)
            col.cls("routines-not-analysed", len(an.not_analysed))
            has_loop = any(n[0] in ("while", "for") for n in N.recipe_nodes(recipe))
            has_proto = any(i.op == "proto" for i in prog.instrs)
            if an.joins >= 1 and (has_loop or has_proto or an.sigs):
                col.nontriv(sha(["t", oc.teal]))
            if has_proto:
                col.cls("has:proto")
            if an.sigs and not has_proto:
                col.cls("has:scratch-convention-routine")
        for i in an.issues:
            if i.sure:
                out.append(("absint:%s" % i.kind, "cfg=%s: %s\n--- TEAL ---\n%s" % (cfg, i, diff.short_teal(oc.teal, 70))))
        if out:
            break
        # dynamic half
        if ctxs and not recipe.get("anytype"):
            for ci, c in enumerate(ctxs):
                try:
                    ir = run_prog(prog, c)
                except (BudgetExceeded, Unsupported):
                    continue
                if col:
                    col.cls("executed")
                if ir.verdict == "fail" and ir.panic in ("TYPE", "UNDERFLOW"):
                    out.append(("dynamic:%s" % ir.panic, "cfg=%s ctx#%d: run-time %s panic (%s) at line %d in a program without anytype expressions\n--- TEAL ---\n%s" % (cfg, ci, ir.panic, ir.panic_msg, ir.panic_line + 1, diff.short_teal(oc.teal, 70))))
                    break
            if out:
                break
    return out


def judge_snippet(case, col=None):
    kind, val = progs.compile_snippet(case["snippet"], case["version"], case["mode"])
    if kind != "teal":
        return []
    try:
        prog, an = analyse_text(val, case["mode"])
    except tp.TealSyntaxError:
        return []
    if col:
        col.cls("sweep:analysed")
        col.cls("routines-analysed", an.analysed)
        col.cls("routines-not-analysed", len(an.not_analysed))
    return [("absint:%s" % i.kind, "snippet %s v%d: %s\n--- TEAL ---\n%s" % (case["snippet"], case["version"], i, diff.short_teal(val, 40))) for i in an.issues if i.sure]


def judge(case):
    if "snippet" in case:
        return judge_snippet(case)
    return judge_recipe(case)


def shrinks(case):
    if "snippet" in case:
        return []
    return case_shrinks(case)


def illtyped_statements(draw):
    """statements whose parts have the wrong TealType (a value where nothing may be left on the stack, nothing where a
    value is needed). PyTeal must refuse them; if one is accepted, the emitted code is analysed like any other program."""
    ctr = "zz"
    cond = ["bin", "Lt", ["load", ctr], ["int", 2]]
    inc = ["store", ctr, ["nary", "Add", [["load", ctr], ["int", 1]]]]
    val = draw(st.sampled_from([["int", 0], ["load", ctr], ["txn", "sender"], ["bytes", "00"]]))
    k = draw(st.integers(0, 9))
    if k == 0:
        return "for-start-is-a-value", ["for", val, cond, inc, ["pop", ["int", 1]]]
    if k == 1:
        return "for-step-is-a-value", ["seq", [["store", ctr, ["int", 0]], ["for", ["nop"], cond, ["seq", [inc, val]], ["pop", ["int", 1]]]]]
    if k == 2:
        return "for-body-is-a-value", ["for", ["store", ctr, ["int", 0]], cond, inc, val]
    if k == 3:
        return "while-body-is-a-value", ["seq", [["store", ctr, ["int", 0]], ["while", cond, ["seq", [inc, val]]]]]
    if k == 4:
        return "seq-middle-is-a-value", ["seq", [val, ["pop", ["int", 1]]]]
    if k == 5:
        return "if-arms-differ", ["pop", ["if", ["int", 1], ["int", 1], ["pop", ["int", 2]], "fn"]]
    if k == 6:
        return "if-then-value-without-else", ["if", ["int", 1], val, None, "then"]
    if k == 7:
        return "cond-arms-differ", ["cond", [[["int", 0], ["pop", ["int", 1]]], [["int", 1], val]]]
    if k == 8:
        return "assert-on-bytes", ["assert", [["bytes", "01"]], None]
    return "store-of-nothing", ["store", ctr, ["pop", ["int", 1]]]


@st.composite
def case_strategy(draw, tier):
    case = draw(c20.case_strategy(tier))
    mode = case["recipe"].get("mode", "app")
    case["ctxs"] = [draw(gen.one_context(mode)).to_json() for _ in range(2)]
    r = case["recipe"]
    if draw(st.integers(0, 7)) == 0 and r["main"][0] == "seq" and len(r["main"][1]) < 200:
        why, stmt = illtyped_statements(draw)
        r = dict(r, vars=dict(r["vars"], zz={"t": "U", "slot": None}))
        items = list(r["main"][1])
        pos = draw(st.integers(0, max(0, len(items) - 1)))
        items = [["store", "zz", ["int", 0]]] + items[:pos] + [stmt] + items[pos:]
        r["main"] = ["seq", items]
        r["illtyped"] = why
        r["anytype"] = True  # no dynamic claim for these
        case["recipe"] = r
    elif draw(st.integers(0, 9)) == 0 and r["main"][0] == "seq" and len(r["main"][1]) < 200 and r.get("level", 6) >= 4:
        # an ill-typed ROUTINE: declared to return a value (uint64 / bytes / anytype) although some path returns nothing
        ret = draw(st.sampled_from(["A", "A", "U", "B"]))
        val = ["int", 7] if ret != "B" else ["bytes", "07"]
        cond = ["bin", "Lt", ["txn", "fee"], ["int", 5]]
        k = draw(st.integers(0, 4))
        if k == 0:
            why, body = "routine-falls-off-after-If-Then-Return", ["if", cond, ["return", val], None, "then"]
        elif k == 1:
            why, body = "routine-bare-Return", ["seq", [["pop", ["int", 1]], ["return", None]]]
        elif k == 2:
            why, body = "routine-bare-Return-in-one-arm", ["if", cond, ["return", val], ["return", None], "then"]
        elif k == 3:
            why, body = "routine-body-is-none", ["seq", [["pop", ["int", 1]]]]
        else:
            why, body = "routine-falls-off-after-ElseIf-chain", ["if", cond, ["return", val], ["if", ["un", "Not", cond], ["return", val], None, "then"], "elseif"]
        r = dict(r, routines=list(r.get("routines", [])) + [{"name": "illr", "kind": "sub", "params": [], "ret": ret, "locals": {}, "body": body, "may_call": []}])
        items = list(r["main"][1])
        pos = draw(st.integers(0, max(0, len(items) - 1)))
        items = items[:pos] + [["pop", ["call", len(r["routines"]) - 1, []]]] + items[pos:]
        r["main"] = ["seq", items]
        r["illtyped"] = "%s(declared %s)" % (why, ret)
        r["anytype"] = True
        case["recipe"] = r
    return case


def shard(tier, seedv, k, n, col: Collector):
    names = [nm for nm, _f in progs.snippets()]
    for idx, name in enumerate(names):
        if idx % n != k:
            continue
        for v in (6, 8, 10):
            case = {"snippet": name, "version": v, "mode": "sig" if name.startswith("Arg(") else "app"}
            col.case()
            for b, d in judge_snippet(case, col):
                col.fail(b, d, case)

    def body(case):
        col.case()
        recipe = case["recipe"]
        col.cls("gen:" + ("degenerate" if recipe.get("degenerate") else ("constant-pool" if recipe.get("pool") else ("sub" if recipe.get("routines") else "core"))))
        if recipe.get("illtyped"):
            col.cls("ill-typed statement inserted:" + recipe["illtyped"])
        res = judge_recipe(case, col)
        for b, d in res:
            col.fail(b, d, case)
        if not res and recipe.get("routines") and len(col.samples) < 3:
            oc = diff.compile_recipe(recipe, case["configs"][-1])
            if oc.teal:
                col.sample({"configs": case["configs"][-1], "teal_head": oc.teal.split("\n")[:25], "routines": [r["name"] for r in recipe["routines"]]})

    hyp_run(body, case_strategy(tier), N_EX[tier], seedv, key=lambda c: c["recipe"], col=col)
