"""C01 - compiled TEAL computes what the expression denotes (differential: AVM interpreter vs recipe evaluator)."""
from __future__ import annotations

from hypothesis import strategies as st

from .. import diff
from ..avm.context import Ctx
from ..avm.interp import BudgetExceeded, run_prog
from ..avm.prims import Unsupported
from ..recipe import gen, nodes as N
from ..recipe.eval import evaluate
from ..runner import Collector, hyp_run, sha
from ..shrink import case_shrinks
from ..teal import parser as tp

ID = "C01"
LEVEL = "exploration"
RULE = (
    "Hypothesis-generated single-routine recipes over the core grammar (constants, unary/binary/n-ary/ternary ops, "
    "substring family, txn/global/arg reads, state/log/inner-txn effects, ScratchVars, Seq/If/ElseIf/Cond/While/For/"
    "Break/Continue/Assert/Return/Approve/Reject, MaybeValue forms), both modes, 3 generated transaction contexts each, "
    "compiled at every version 2..10 that accepts them; oracle = independent tree-walking evaluator of the documented "
    "source semantics vs reference AVM interpreter on the emitted text (verdict, value, ordered logs/state writes/inner "
    "txns, explicitly numbered slots); an emitted text that cannot be assembled (bad immediate, undefined label, control "
    "running off the end) is a violation as well. Plus an enumerated grid of constant-index Substring/Extract/Suffix slices "
    "of a 300-byte value around the uint8 boundary at versions 2..10, and WideRatio with compound factors. non-trivial = recipe has >=1 of If/Cond/While/For/Assert/MaybeValue and some "
    "context executes >=2 basic blocks without failing; distinct by recipe hash."
)
ASSUMPTIONS = [
    "vf/avm implements AVM opcode semantics (primitives shared with the evaluator by design; lowering is what is tested)",
    "vf/recipe/eval.py encodes PyTeal's documented source semantics (DESIGN.md section 1.7)",
    "opcode cost/budget, fees, min-balance and ledger validity rules are not modelled",
    "generator soundness rules R1-R6 (terminating loops, Break/Continue/Return only in statement position, ...)",
]
SHARDS = {"quick": 16, "thorough": 16}
N_EX = {"quick": 90, "thorough": 4000}
BUDGET = {"quick": 40, "thorough": 110}
MIN_NONTRIVIAL = {"quick": 100, "thorough": 2000}
VERSIONS = list(range(2, 11))
CONTROL = {"if", "cond", "while", "for", "assert", "maybe"}


def run_case(case, col=None):
    """Returns list of (bucket, detail). case = {recipe, ctxs, configs:[{version}]}"""
    recipe = case["recipe"]
    ctxs = diff.ctx_list(case)
    out = []
    evals = []
    for c in ctxs:
        try:
            evals.append(evaluate(recipe, c))
        except (BudgetExceeded, Unsupported) as e:
            evals.append(None)
    if all(e is None for e in evals):
        if col:
            col.cls("discard:eval-budget/unsupported")
        return out
    seen_body = {}
    ran_blocks = False
    for cfg in case["configs"]:
        oc = diff.compile_recipe(recipe, cfg)
        if oc.crash is not None:
            if col:
                col.cls("compile-crash(C20's business):%s" % type(oc.crash).__name__)
            continue
        if oc.error is not None:
            if col:
                col.cls("rejected@v%d" % cfg["version"])
            continue
        teal = oc.teal
        body = teal.split("\n", 1)[1] if "\n" in teal else ""
        if body in seen_body:
            if col:
                col.cls("same-text-as-other-version")
            continue
        seen_body[body] = cfg["version"]
        if col:
            col.cls("compiled@v%d" % cfg["version"])
        try:
            prog = tp.parse(teal)
        except tp.TealSyntaxError as e:
            out.append(("unparsable", "emitted TEAL does not parse: %s\n%s" % (e, diff.short_teal(teal))))
            continue
        iss = diff.unassemblable(teal, cfg["version"], recipe.get("mode", "app"))
        if iss is not None:
            out.append(("unassemblable:%s" % iss.kind, "v%d: the emitted program cannot be assembled: %s\n--- TEAL ---\n%s" % (cfg["version"], iss, diff.short_teal(teal, 60))))
            continue
        for ci, (c, er) in enumerate(zip(ctxs, evals)):
            if er is None:
                continue
            try:
                ir = run_prog(prog, c)
            except BudgetExceeded:
                if col:
                    col.cls("discard:interp-budget")
                continue
            except Unsupported as e:
                if col:
                    col.cls("discard:unsupported")
                continue
            if ir.verdict != "fail" and ir.blocks >= 2:
                ran_blocks = True
            if col:
                col.cls("verdict:" + er.verdict)
            d = diff.compare(er, ir, explicit_slots=True)
            if d is not None:
                out.append(("diff:%s" % d[0], "v%d ctx#%d: %s\n--- TEAL ---\n%s" % (cfg["version"], ci, d[1], diff.short_teal(teal, 60))))
                break
    case["_ran_blocks"] = ran_blocks
    return out


def judge(case):
    c = dict(case)
    return run_case(c)


def shrinks(case):
    return case_shrinks(case)


@st.composite
def case_strategy(draw, budget, thorough=False):
    recipe = draw(gen.core_recipe(max_budget=budget))
    ctxs = [draw(gen.one_context(recipe["mode"])) for _ in range(3)]
    if thorough:
        vs = VERSIONS
    else:
        lv = recipe["level"]
        vs = sorted({lv, min(lv + 1, 10), 8, 10} | ({2} if lv <= 3 else set()))
    return {"recipe": recipe, "ctxs": [c.to_json() for c in ctxs], "configs": [{"version": v} for v in vs]}


def slice_grid():
    """constant-index slices over a 300-byte value: every (start, end/length) pair around the uint8 boundary, where the
    compiler chooses between immediate and stack forms per version"""
    pts = [0, 1, 2, 127, 128, 254, 255, 256, 257, 299, 300, 301]
    note = bytes(range(256)) + bytes(range(44))
    ctx = Ctx("app", [{"Note": note, "ApplicationID": 1001, "TypeEnum": 6}], 0).to_json()
    out = []
    for s_ in pts:
        for e_ in pts:
            nodes = [["tern", "Extract", ["txn", "note"], ["int", s_], ["int", e_]]]
            if e_ >= s_:
                nodes.append(["tern", "Substring", ["txn", "note"], ["int", s_], ["int", e_]])
            if e_ == 0:
                nodes.append(["suffix", ["txn", "note"], ["int", s_]])
            for nd in nodes:
                lvl = 5 if nd[0] == "suffix" or nd[1] == "Extract" else 2
                # the value of the program is 1 + the length of the slice (a wrong slice changes it or makes the run fail)
                main = ["seq", [["nary", "Add", [["int", 1], ["un", "Len", nd]]]]]
                out.append({"recipe": {"mode": "app", "level": lvl, "vars": {}, "routines": [], "main": main}, "ctxs": [ctx],
                            "configs": [{"version": v} for v in (2, 3, 4, 5, 6, 8, 10) if v >= lvl]})
    return out


def shard(tier, seedv, k, n, col: Collector):
    for idx, case in enumerate(slice_grid()):
        if idx % n != k:
            continue
        col.case()
        col.cls("slice-grid")
        for b, d in run_case(case, col):
            col.fail(b, d, case)

    def body(case):
        col.case()
        res = run_case(case, col)
        tg = set()
        for nd in N.recipe_nodes(case["recipe"]):
            tg.add(nd[0])
        for t in tg & (CONTROL | {"break", "continue", "return", "itxn", "gput", "lput", "log", "nary", "tern", "suffix"}):
            col.cls("has:" + t)
        col.cls("mode:" + case["recipe"]["mode"])
        nontriv = bool(tg & CONTROL) and case.pop("_ran_blocks", False)
        case.pop("_ran_blocks", None)
        if nontriv:
            col.nontriv(sha(case["recipe"]))
        for b, d in res:
            col.fail(b, d, case)
        if not res and nontriv and len(tg & CONTROL) >= 2:
            col.sample({"recipe_main": case["recipe"]["main"], "mode": case["recipe"]["mode"]})

    hyp_run(body, case_strategy(BUDGET[tier], tier == "thorough"), N_EX[tier], seedv, key=lambda c: c["recipe"], col=col)
