"""C16 - WideRatio is exact or fails, never wraps (differential vs Python integers)."""
from __future__ import annotations

from hypothesis import strategies as st

from ..runner import Collector, hyp_run, sha
from ..avm.context import Ctx
from ..avm.interp import run_teal, BudgetExceeded
from ..avm.prims import Unsupported

ID = "C16"
LEVEL = "exploration"
RULE = (
    "1..6 numerator x 1..6 denominator factors (not both singletons), each a constant, an app-arg read, a ScratchVar loaded from an app arg or a compound expression; optionally the quotient is stored back into one of the factor variables and read from there; assembleConstants and the slot optimiser on/off/default; values "
    "from boundary set, uniform, small, and solved so a running product sits just below/at/above 2**128 or the "
    "quotient at 2**64-1/2**64; versions 5..10. Oracle: Python big integers. non-trivial = >=3 factors on a side "
    "or expected class is a boundary class (overflow/quotient/div0) ; distinct by (factors, placement, version)."
)
ASSUMPTIONS = [
    "reference AVM interpreter implements mulw/mul/add/divmodw/cover/uncover/dig/swap/!/assert per the AVM spec",
    "expected semantics taken from the property statement: left-to-right running products must fit 128 bits",
]
SHARDS = {"quick": 16, "thorough": 16}
N = {"quick": 400, "thorough": 12000}
MIN_NONTRIVIAL = {"quick": 200, "thorough": 2000}

M64 = 2**64 - 1
BOUND = [0, 1, 2, 3, 2**32 - 1, 2**32, 2**32 + 1, 2**63 - 1, 2**63, 2**63 + 1, M64 - 1, M64]


def u64():
    return st.one_of(st.sampled_from(BOUND), st.integers(0, M64), st.integers(0, 1000), st.integers(1, 2**33))


@st.composite
def factor_list(draw, lo=1):
    n = draw(st.integers(lo, 6))
    style = draw(st.integers(0, 5))
    if style == 0:
        return draw(st.lists(st.integers(1, 50), min_size=n, max_size=n))
    if style in (1, 2) and n >= 2:
        # solve the last factor so that the running product straddles 2**128
        fs = draw(st.lists(st.one_of(st.integers(1, 2**40), st.sampled_from([1, 2, 2**32, 2**63, M64])), min_size=n - 1, max_size=n - 1))
        prod = 1
        for f in fs:
            prod *= f
        if 0 < prod < 2**128:
            last = (2**128 - 1) // prod + draw(st.sampled_from([-1, 0, 1, 2]))
            last = max(0, min(M64, last))
        else:
            last = draw(u64())
        pos = draw(st.integers(0, n - 1)) if style == 2 else n - 1
        fs.insert(pos, last)
        return fs
    return draw(st.lists(u64(), min_size=n, max_size=n))


@st.composite
def case_strategy(draw):
    kind = draw(st.integers(0, 10))
    if kind == 10:
        # the same literal factors on both sides (every constant is used twice): quotient 1, all constants, assembled
        n = draw(st.integers(3, 6))
        nums = draw(st.lists(st.one_of(st.integers(1, 127), st.integers(128, 5000), st.sampled_from([2**20, 2**16 + 1])), min_size=n, max_size=n, unique=True))
        dens = list(draw(st.permutations(nums)))
        return {"nums": [str(x) for x in nums], "dens": [str(x) for x in dens], "place": "c" * (2 * n), "version": draw(st.integers(5, 10)), "assemble": draw(st.sampled_from([True, True, False]))}
    if kind <= 1:
        # quotient boundary: N = q*d (+r) with q around 2**64
        d = draw(st.one_of(st.integers(1, 2**20), st.integers(1, M64)))
        q_hi = draw(st.sampled_from([2**32, 2**32 - 1, 2**33]))
        q_lo = draw(st.sampled_from([2**32, 2**32 + 1, 2**32 - 1, 2**31]))
        nums = [q_hi, q_lo, d]
        dens = [d] + draw(st.lists(st.just(1), max_size=2))
        if draw(st.booleans()):
            nums = [M64, d]
        if draw(st.booleans()):
            nums.reverse()
    else:
        nums = draw(factor_list())
        dens = draw(factor_list(2 if len(nums) == 1 else 1))
        if draw(st.integers(0, 3)) == 0:
            # make the quotient small: denominators multiply to something close to numerator product
            prod = 1
            for f in nums:
                prod *= f
            if prod < 2**128 and prod > 0 and len(dens) >= 2:
                dens = [min(M64, max(1, prod >> 64)), draw(st.sampled_from([M64, 2**63, 2**32]))] + [1] * (len(dens) - 2)
    if len(nums) == 1 and len(dens) == 1:
        dens = dens + [1]
    total = len(nums) + len(dens)
    # placement: 'c' constant, 'a' app arg, 's' a scratch variable loaded from an app arg, 'x' a compound expression
    place = draw(st.lists(st.sampled_from("ccaaasx"), min_size=total, max_size=total))
    version = draw(st.integers(5, 10))
    case = {"nums": [str(x) for x in nums], "dens": [str(x) for x in dens], "place": "".join(place), "version": version}
    k = draw(st.integers(0, 7))
    if k == 0:
        case["assemble"] = True
    if k in (1, 2):
        case["scratch_slots"] = (k == 1)
    if "s" in case["place"] and draw(st.booleans()):
        case["result_into"] = case["place"].index("s")  # the quotient is stored back into that factor's variable, then read
    return case


def expected(nums, dens):
    pn = 1
    for f in nums:
        pn *= f
        if pn >= 2**128:
            return ("fail", "num-overflow")
    pd = 1
    for f in dens:
        pd *= f
        if pd >= 2**128:
            return ("fail", "den-overflow")
    if pd == 0:
        return ("fail", "div0")
    q = pn // pd
    if q >= 2**64:
        return ("fail", "quotient-overflow")
    return ("ok", q)


def build(case):
    import pyteal as pt

    nums = [int(x) for x in case["nums"]]
    dens = [int(x) for x in case["dens"]]
    args = []
    exprs = []
    pre = []
    svars = {}
    for pos, (v, p) in enumerate(zip(nums + dens, case["place"])):
        if p == "c":
            exprs.append(pt.Int(v))
        elif p == "s":
            sv = pt.ScratchVar(pt.TealType.uint64)
            svars[pos] = sv
            pre.append(sv.store(pt.Btoi(pt.Txn.application_args[len(args)])))
            args.append(v.to_bytes(8, "big"))
            exprs.append(sv.load())
        elif p == "x":
            # compound factor: (arg - 1) + 1 for v >= 1, arg * 1 for 0
            a = pt.Btoi(pt.Txn.application_args[len(args)])
            if v >= 1:
                exprs.append(a + pt.Int(1))
                args.append((v - 1).to_bytes(8, "big"))
            else:
                exprs.append(a * pt.Int(1))
                args.append(v.to_bytes(8, "big"))
        else:
            exprs.append(pt.Btoi(pt.Txn.application_args[len(args)]))
            args.append(v.to_bytes(8, "big"))
    ne, de = exprs[: len(nums)], exprs[len(nums) :]
    if case.get("result_into") in svars:
        sv = svars[case["result_into"]]
        prog = pt.Seq(*pre, sv.store(pt.WideRatio(ne, de)), pt.Log(pt.Itob(sv.load())), pt.Int(1))
    else:
        prog = pt.Seq(*pre, pt.Log(pt.Itob(pt.WideRatio(ne, de))), pt.Int(1))
    return prog, args


def judge(case):
    import pyteal as pt

    out = []
    nums = [int(x) for x in case["nums"]]
    dens = [int(x) for x in case["dens"]]
    exp = expected(nums, dens)
    try:
        prog, args = build(case)
        opt = pt.OptimizeOptions(scratch_slots=case["scratch_slots"]) if "scratch_slots" in case else None
        teal = pt.compileTeal(prog, pt.Mode.Application, version=case["version"], assembleConstants=bool(case.get("assemble")), optimize=opt)
    except Exception as e:
        return [("compile-error:%s" % type(e).__name__, "WideRatio program failed to compile: %r" % (e,))]
    ctx = Ctx("app", [{"ApplicationArgs": args, "ApplicationID": 1001, "TypeEnum": 6}], 0)
    try:
        r = run_teal(teal, ctx)
    except (Unsupported, BudgetExceeded) as e:
        return [("harness-unsupported", repr(e))]
    if exp[0] == "ok":
        want = ("approve", 1, (("log", exp[1].to_bytes(8, "big")),))
        if r.observable() != want:
            out.append(("wrong-result:%s" % ("failed" if r.verdict == "fail" else "value"), "nums=%s dens=%s expected %d, got %r (panic %s %s)" % (nums, dens, exp[1], r.observable(), r.panic, r.panic_msg)))
    else:
        if r.verdict != "fail":
            got = r.events[0][1].hex() if r.events else None
            out.append(("no-failure:%s" % exp[1], "nums=%s dens=%s must fail (%s) but program returned %s log=%s" % (nums, dens, exp[1], r.verdict, got)))
        elif r.panic in ("TYPE", "UNDERFLOW", "FRAME", "OTHER"):
            out.append(("bad-panic:%s" % r.panic, "nums=%s dens=%s failed with %s %s instead of an arithmetic/assert failure" % (nums, dens, r.panic, r.panic_msg)))
    return out


def shard(tier, seedv, k, n, col: Collector):
    def body(case):
        col.case()
        nums = [int(x) for x in case["nums"]]
        dens = [int(x) for x in case["dens"]]
        exp = expected(nums, dens)
        cls = exp[1] if exp[0] == "fail" else ("ok-q>=2^63" if exp[1] >= 2**63 else ("ok-q=0" if exp[1] == 0 else "ok"))
        col.cls(cls)
        col.cls("v%d" % case["version"])
        if len(nums) >= 3 or len(dens) >= 3 or exp[0] == "fail" or (exp[0] == "ok" and exp[1] >= 2**63):
            col.nontriv(sha(case))
        res = judge(case)
        for b, d in res:
            col.fail(b, d, case)
        if not res and len(nums) >= 3:
            col.sample({"case": case, "expected": list(map(str, exp))})

    hyp_run(body, case_strategy(), N[tier], seedv, col=col)


def shrinks(case):
    nums, dens, place = case["nums"], case["dens"], case["place"]
    total = len(nums) + len(dens)
    for i in range(total):
        n2, d2 = list(nums), list(dens)
        if i < len(nums):
            if len(nums) == 1:
                continue
            del n2[i]
        else:
            if len(dens) == 1:
                continue
            del d2[i - len(nums)]
        if len(n2) == 1 and len(d2) == 1:
            continue
        yield {"nums": n2, "dens": d2, "place": place[:i] + place[i + 1 :], "version": case["version"]}
    if "a" in place:
        yield {"nums": nums, "dens": dens, "place": "c" * total, "version": case["version"]}
    for i in range(total):
        lst = nums if i < len(nums) else dens
        j = i if i < len(nums) else i - len(nums)
        v = int(lst[j])
        for nv in (0, 1, v // 2, v - 1):
            if 0 <= nv < v:
                n2, d2 = list(nums), list(dens)
                (n2 if i < len(nums) else d2)[j] = str(nv)
                yield {"nums": n2, "dens": d2, "place": place, "version": case["version"]}
