"""C14 - inner method calls are marshalled per ARC-4 (callee's view of the recorded inner group)."""
# NOTE: no `from __future__ import annotations`
import json

from hypothesis import strategies as st

from .. import diff
from ..abi import shapes as S
from ..avm.context import Ctx
from ..avm.interp import BudgetExceeded, run_prog
from ..avm.prims import Unsupported
from ..runner import Collector, hyp_run, sha
from ..teal import parser as tp
from .c09 import ADDRS, SMALL, TXN_TYPES, TYPE_ENUM, sig_of

ID = "C14"
LEVEL = "exploration"
RULE = (
    "Signatures as in C09 (0..18 parameters: ARC-4 values, reference and transaction kinds in any order); arguments given "
    "as ABI instances, pre-encoded Expr bytes, reference Exprs and transaction field dicts; optional extra_fields; app_id "
    "present or None; InnerTxnBuilder.MethodCall inside Begin/Submit and ExecuteMethodCall; versions 6..10. The reference "
    "interpreter records the inner group at itxn_submit. Oracle (callee's view): ApplicationArgs[0] is the selector of the "
    "stated signature; each plain argument follows as the reference (algosdk) encoding of the intended value; a reference "
    "argument is a one-byte index that resolves through the inner transaction's foreign array (accounts and applications "
    "1-based, assets 0-based) to the intended account/app/asset; transaction arguments are the immediately preceding "
    "members of the same inner group, in order, with the given type and fields; extra_fields are set on the call; more "
    "than 15 non-transaction arguments must arrive as 14 + one tuple. Ill-typed calls (non-assignable ABI type, wrong "
    "transaction type, wrong count, non-dict transaction argument) must raise when the expression is built. non-trivial "
    "= >= 1 reference or transaction argument together with >= 1 plain argument; distinct by (signature, values, forms)."
)
ASSUMPTIONS = ["algosdk.abi reference encodings", "vf/avm itxn_* recording semantics (inner groups are recorded, not executed)"]
SHARDS = {"quick": 16, "thorough": 16}
N_EX = {"quick": 120, "thorough": 3000}
MIN_NONTRIVIAL = {"quick": 200, "thorough": 3000}
VERSIONS = {"quick": [6, 8, 10], "thorough": [6, 7, 8, 9, 10]}


EXTRA_ADDR = bytes([0xC3]) * 32
EXTRA_ASSET = 424242
EXTRA_APP = 434343
MORE_TUPLES = [["tuple", [["bool"], ["uint", 8], ["uint", 8]]], ["tuple", [["bool"]]], ["tuple", [["string"], ["uint", 64], ["bool"]]], ["tuple", [["string"]]], ["tuple", []]]


def selector(sig: str) -> bytes:
    import hashlib

    return hashlib.new("sha512_256", sig.encode()).digest()[:4]


def build_program(pt, case):
    m, values, forms = case["method"], case["values"], case["forms"]
    pre = []
    args = []
    for p, v, f in zip(m["params"], values, forms):
        if p["k"] == "abi":
            shape = p["shape"] if f != "bad-type" else case["bad_shape"]
            if f == "expr":
                args.append(pt.Bytes(S.encode(p["shape"], S.unjson(p["shape"], v))))
            else:
                inst = S.pt_spec(pt, shape).new_instance()
                val = S.unjson(p["shape"], v) if f != "bad-type" else S.unjson(shape, case["bad_value"])
                pre.append(inst.decode(pt.Bytes(S.encode(shape, val))))
                args.append(inst)
        elif p["k"] == "ref":
            if p["t"] == "account":
                args.append(pt.Bytes(ADDRS[v]))
            else:
                args.append(pt.Int(v))
        else:
            if f == "not-a-dict":
                args.append(pt.Int(1))
                continue
            t = v["type"] if f != "bad-txn-type" else ("pay" if v["type"] != "pay" else "axfer")
            if f == "not-a-txn-type":
                # a value that is an EnumInt but not a transaction type
                args.append({pt.TxnField.type_enum: case["bad_enum"] == "unknown" and pt.TxnType.Unknown or getattr(pt.OnComplete, case["bad_enum"])})
                continue
            enum = {"pay": pt.TxnType.Payment, "keyreg": pt.TxnType.KeyRegistration, "acfg": pt.TxnType.AssetConfig, "axfer": pt.TxnType.AssetTransfer,
                    "afrz": pt.TxnType.AssetFreeze, "appl": pt.TxnType.ApplicationCall}[t]
            d = {pt.TxnField.type_enum: enum}
            if t == "pay":
                d[pt.TxnField.amount] = pt.Int(v.get("amount", 0))
                d[pt.TxnField.receiver] = pt.Bytes(ADDRS[v.get("rcv", 0)])
            elif t == "axfer":
                d[pt.TxnField.asset_amount] = pt.Int(v.get("amount", 0))
                d[pt.TxnField.xfer_asset] = pt.Int(5005)
            else:
                d[pt.TxnField.note] = pt.Bytes(b"n%d" % v.get("amount", 0))
            args.append(d)
    if case.get("drop_last_arg"):
        args = args[:-1]
    extra = None
    if case.get("extra"):
        extra = {pt.TxnField.fee: pt.Int(0), pt.TxnField.note: pt.Bytes(b"extra")}
        if case.get("extra") == "foreign":
            # the caller adds further foreign references of its own: they must come after the ones the arguments need
            extra[pt.TxnField.accounts] = [pt.Bytes(EXTRA_ADDR)]
            extra[pt.TxnField.assets] = [pt.Int(EXTRA_ASSET)]
            extra[pt.TxnField.applications] = [pt.Int(EXTRA_APP)]
    app_id = pt.Int(case["app_id"]) if case.get("app_id") is not None else None
    kw = dict(app_id=app_id, method_signature=sig_of(m), args=args, extra_fields=extra)
    if case.get("execute"):
        body = pt.InnerTxnBuilder.ExecuteMethodCall(**kw)
    else:
        body = pt.Seq(pt.InnerTxnBuilder.Begin(), pt.InnerTxnBuilder.MethodCall(**kw), pt.InnerTxnBuilder.Submit())
    return pt.Seq(*pre, body, pt.Int(1))


def compile_case(case, version):
    import pyteal as pt

    diff.reset_pyteal_state()
    try:
        prog = build_program(pt, case)
    except diff.pyteal_errors() as e:
        return "build-error", e
    except Exception as e:  # noqa
        return "build-crash", e
    try:
        return "teal", pt.compileTeal(prog, pt.Mode.Application, version=version)
    except diff.pyteal_errors() as e:
        return "compile-error", e
    except Exception as e:  # noqa
        return "compile-crash", e
    finally:
        diff.reset_pyteal_state()


def callee_view(case, group):
    """-> list of problems from decoding the recorded inner group the way an ARC-4 callee would"""
    m, values = case["method"], case["values"]
    probs = []
    ntx = sum(1 for p in m["params"] if p["k"] == "txn")
    if len(group) != ntx + 1:
        return ["inner group has %d transactions, expected %d transaction argument(s) + the call" % (len(group), ntx)]
    call = group[-1]
    if call.get("TypeEnum") != 6:
        probs.append("last inner transaction is not an application call (TypeEnum=%r)" % call.get("TypeEnum"))
    if case.get("app_id") is not None and call.get("ApplicationID") != case["app_id"]:
        probs.append("ApplicationID is %r, expected %r" % (call.get("ApplicationID"), case["app_id"]))
    if case.get("app_id") is None and call.get("ApplicationID", 0) != 0:
        probs.append("app_id=None but ApplicationID=%r" % call.get("ApplicationID"))
    aa = call.get("ApplicationArgs", [])
    if not aa or aa[0] != selector(sig_of(m)):
        probs.append("ApplicationArgs[0] is %s, selector of %s is %s" % (aa[0].hex() if aa else None, sig_of(m), selector(sig_of(m)).hex()))
        return probs
    plain = [(p, v) for p, v in zip(m["params"], values) if p["k"] != "txn"]
    exp = []
    for p, v in plain:
        exp.append((p, v))
    if len(plain) > 15:
        # ARC-4: the 15th and later arguments travel as one tuple in the last slot
        head = plain[:14]
        tail = plain[14:]
        if len(aa) - 1 != 15:
            probs.append("%d non-transaction arguments must arrive as 14 + one tuple (16 ApplicationArgs), got %d ApplicationArgs" % (len(plain), len(aa)))
            return probs
    else:
        if len(aa) - 1 != len(plain):
            probs.append("%d ApplicationArgs after the selector, expected %d" % (len(aa) - 1, len(plain)))
            return probs
        for i, (p, v) in enumerate(plain):
            got = aa[1 + i]
            if p["k"] == "abi":
                want = S.encode(p["shape"], S.unjson(p["shape"], v))
                if got != want:
                    probs.append("argument %d (%s): callee receives %s, reference encoding of the intended value is %s" % (i, S.sdk_str(p["shape"]), got.hex(), want.hex()))
            else:
                if len(got) != 1:
                    probs.append("reference argument %d (%s) is %d bytes, ARC-4 prescribes a one-byte index" % (i, p["t"], len(got)))
                    continue
                idx = got[0]
                if p["t"] == "account":
                    accts = call.get("Accounts", [])
                    res = None if idx == 0 else (accts[idx - 1] if idx - 1 < len(accts) else "out-of-range")
                    if res != ADDRS[v]:
                        probs.append("account argument %d: index %d resolves to %s in Accounts=%s, intended %s" % (i, idx, res.hex() if isinstance(res, bytes) else res, [a.hex()[:8] for a in accts], ADDRS[v].hex()[:8]))
                elif p["t"] == "application":
                    apps = call.get("Applications", [])
                    res = call.get("ApplicationID") if idx == 0 else (apps[idx - 1] if idx - 1 < len(apps) else "out-of-range")
                    if res != v:
                        probs.append("application argument %d: index %d resolves to %r in Applications=%s, intended %r" % (i, idx, res, apps, v))
                else:
                    assets = call.get("Assets", [])
                    res = assets[idx] if idx < len(assets) else "out-of-range"
                    if res != v:
                        probs.append("asset argument %d: index %d resolves to %r in Assets=%s, intended %r" % (i, idx, res, assets, v))
    # transaction arguments: preceding members in order
    txvals = [v for p, v in zip(m["params"], values) if p["k"] == "txn"]
    for gi, v in enumerate(txvals):
        t = group[gi]
        if t.get("TypeEnum") != TYPE_ENUM[v["type"]]:
            probs.append("inner group member %d has TypeEnum %r, transaction argument %d is %s" % (gi, t.get("TypeEnum"), gi, v["type"]))
        if v["type"] == "pay" and (t.get("Amount", 0) != v.get("amount", 0) or t.get("Receiver") != ADDRS[v.get("rcv", 0)]):
            probs.append("inner group member %d: Amount/Receiver %r/%s differ from the given fields" % (gi, t.get("Amount"), (t.get("Receiver") or b"").hex()[:8]))
        if v["type"] == "axfer" and t.get("AssetAmount", 0) != v.get("amount", 0):
            probs.append("inner group member %d: AssetAmount %r differs" % (gi, t.get("AssetAmount")))
        if v["type"] not in ("pay", "axfer") and t.get("Note") != b"n%d" % v.get("amount", 0):
            probs.append("inner group member %d: Note %r differs from the given field" % (gi, t.get("Note")))
    if case.get("extra"):
        if call.get("Note") != b"extra" or call.get("Fee") != 0:
            probs.append("extra_fields were not set on the application call (Note=%r Fee=%r)" % (call.get("Note"), call.get("Fee")))
        if case.get("extra") == "foreign":
            if EXTRA_ADDR not in call.get("Accounts", []) or EXTRA_ASSET not in call.get("Assets", []) or EXTRA_APP not in call.get("Applications", []):
                probs.append("extra_fields' foreign references are missing from the call (Accounts=%s Assets=%s Applications=%s)" % ([a.hex()[:8] for a in call.get("Accounts", [])], call.get("Assets"), call.get("Applications")))
    return probs


def run_case(case, col=None):
    out = []
    m = case["method"]
    bad = case.get("ill_typed")
    for cfg in case["configs"]:
        kind, val = compile_case(case, cfg["version"])
        if bad:
            if kind in ("build-error",):
                if col:
                    col.cls("ill-typed:rejected-at-build")
                continue
            if kind in ("build-crash", "compile-crash"):
                if col:
                    col.cls("ill-typed:crash:%s" % type(val).__name__)
                continue
            out.append(("ill-typed-accepted", "cfg=%s: %s with an ill-typed argument list (%s) was accepted when the expression was built (%s)" % (cfg, sig_of(m), bad, kind)))
            break
        if kind in ("build-error", "compile-error"):
            out.append(("call-rejected", "cfg=%s: a well-typed MethodCall %s was rejected: %s: %s" % (cfg, sig_of(m), type(val).__name__, str(val)[:200])))
            break
        if kind in ("build-crash", "compile-crash"):
            if isinstance(val, RecursionError):
                continue
            out.append(("crash:%s" % type(val).__name__, "cfg=%s: %s: %s" % (cfg, sig_of(m), str(val)[:200])))
            break
        iss = diff.static_issue(val, cfg["version"])
        if iss is not None:
            out.append(("illegal-teal:%s" % iss.kind, "cfg=%s: %s" % (cfg, iss)))
            break
        prog = tp.parse(val)
        try:
            r = run_prog(prog, Ctx())
        except (BudgetExceeded, Unsupported) as e:
            if col:
                col.cls("discard:%s" % type(e).__name__)
            continue
        if col:
            col.cls("executed")
        if r.verdict == "fail" and r.panic == "LIMIT":
            # the generated argument values exceed an AVM resource limit (e.g. 2048 bytes of inner ApplicationArgs): the
            # call cannot be made at all - not a statement about PyTeal's marshalling
            if col:
                col.cls("discard:avm-resource-limit")
            continue
        if r.verdict != "approve":
            out.append(("run-failed:%s" % r.panic, "cfg=%s: %s: %s\n%s" % (cfg, sig_of(m), diff.describe_result(r), diff.short_teal(val, 70))))
            break
        if len(r.itxn_groups) != 1:
            out.append(("group-count", "cfg=%s: %d inner groups submitted" % (cfg, len(r.itxn_groups))))
            break
        probs = callee_view(case, r.itxn_groups[0])
        if probs:
            kindp = "callee-view"
            if "tuple" in probs[0]:
                kindp = "callee-view:no-tuple-packing"
            out.append((kindp, "cfg=%s: %s: %s\nvalues=%s\n%s" % (cfg, sig_of(m), probs[0], json.dumps(case["values"])[:300], diff.short_teal(val, 70))))
            break
    return out


def judge(case):
    return run_case(case)


def shrinks(case):
    m = case["method"]
    if len(case["configs"]) > 1:
        for cfg in case["configs"]:
            yield dict(case, configs=[cfg])
    if case.get("ill_typed"):
        return
    for i in range(len(m["params"])):
        m2 = dict(m, params=m["params"][:i] + m["params"][i + 1:])
        yield dict(case, method=m2, values=case["values"][:i] + case["values"][i + 1:], forms=case["forms"][:i] + case["forms"][i + 1:])
    if case.get("extra"):
        yield dict(case, extra=False)


@st.composite
def case_strategy(draw, tier):
    n = draw(st.sampled_from([0, 1, 2, 3, 4, 6, 8, 12, 14, 15, 16, 17, 18]))
    params, values, forms = [], [], []
    ntx = nacc = nref = 0
    for i in range(n):
        k = draw(st.integers(0, 9))
        if k == 0 and ntx < 3:
            t = draw(st.sampled_from(TXN_TYPES))
            params.append({"k": "txn", "t": t})
            real = t if t != "txn" else draw(st.sampled_from(TXN_TYPES[1:]))
            values.append({"type": real, "amount": draw(st.integers(0, 1000)), "rcv": draw(st.integers(0, 3))})
            forms.append("dict")
            ntx += 1
        elif k <= 2 and nref < 6:
            t = draw(st.sampled_from(["account", "asset", "application"]))
            if t == "account" and nacc >= 3:
                t = "asset"
            params.append({"k": "ref", "t": t})
            values.append(draw(st.integers(0, 3)) if t == "account" else draw(st.sampled_from([5005, 6006, 7007] if t == "asset" else [2002, 3003, 4004])))
            forms.append("expr")
            nref += 1
            nacc += t == "account"
        else:
            s = draw(st.sampled_from(SMALL + MORE_TUPLES))
            params.append({"k": "abi", "shape": s})
            values.append(S.jsonable(s, draw(S.value_strategy(s))))
            forms.append(draw(st.sampled_from(["inst", "inst", "expr"])))
    m = {"name": draw(st.sampled_from(["call_me", "f", "transfer"])), "params": params}
    if draw(st.booleans()):
        m["ret"] = draw(st.sampled_from(SMALL))
    case = {"method": m, "values": values, "forms": forms, "app_id": draw(st.sampled_from([2002, 2002, 9009, None])), "extra": draw(st.sampled_from([False, True, "foreign" if (nacc < 3 and nref <= 4) else True])), "execute": draw(st.booleans())}
    # ill-typed variants
    w = draw(st.integers(0, 9))
    abi_i = [i for i, p in enumerate(params) if p["k"] == "abi"]
    txn_i = [i for i, p in enumerate(params) if p["k"] == "txn" and p["t"] != "txn"]
    if w == 0 and abi_i:
        i = draw(st.sampled_from(abi_i))
        from .c19 import perturb

        bs = draw(perturb(params[i]["shape"]))
        if _layout(bs) == _layout(params[i]["shape"]) or not S.annotatable(bs):
            cand = [s for s in SMALL + MORE_TUPLES if _layout(s) != _layout(params[i]["shape"])]
            bs = draw(st.sampled_from(cand))
        case["forms"] = forms[:i] + ["bad-type"] + forms[i + 1:]
        case["bad_shape"] = bs
        case["bad_value"] = S.jsonable(bs, draw(S.value_strategy(bs)))
        case["ill_typed"] = "argument %d is a %s where %s is declared" % (i, S.sdk_str(bs), S.sdk_str(params[i]["shape"]))
    elif w == 1 and txn_i:
        i = draw(st.sampled_from(txn_i))
        if values[i]["type"] in ("pay", "axfer") or True:
            case["forms"] = forms[:i] + ["bad-txn-type"] + forms[i + 1:]
            case["ill_typed"] = "transaction argument %d has the wrong type" % i
    elif w == 4 and [i for i, p in enumerate(params) if p["k"] == "txn" and p["t"] == "txn"]:
        i = [i for i, p in enumerate(params) if p["k"] == "txn" and p["t"] == "txn"][0]
        case["forms"] = forms[:i] + ["not-a-txn-type"] + forms[i + 1:]
        case["bad_enum"] = draw(st.sampled_from(["unknown", "NoOp", "OptIn", "DeleteApplication"]))
        case["ill_typed"] = "generic transaction argument %d carries type_enum=%s, which is not a transaction type" % (i, case["bad_enum"])
    elif w == 2 and n >= 1:
        case["drop_last_arg"] = True
        case["ill_typed"] = "one argument too few"
    elif w == 3 and [i for i, p in enumerate(params) if p["k"] == "txn"]:
        i = [i for i, p in enumerate(params) if p["k"] == "txn"][0]
        case["forms"] = forms[:i] + ["not-a-dict"] + forms[i + 1:]
        case["ill_typed"] = "transaction argument %d is not a field dict" % i
    cfgs = [{"version": v} for v in VERSIONS[tier]]
    case["configs"] = cfgs
    return case


def _layout(s):
    from .c19 import layout

    return layout(s)


def shard(tier, seedv, k, n, col: Collector):
    def body(case):
        col.case()
        m = case["method"]
        res = run_case(case, col)
        kinds = {p["k"] for p in m["params"]}
        if "abi" in kinds and (("ref" in kinds) or ("txn" in kinds)):
            col.nontriv(sha([m, case["values"], case["forms"], case.get("ill_typed")]))
        if case.get("ill_typed"):
            col.cls("kind:ill-typed")
        nplain = sum(1 for p in m["params"] if p["k"] != "txn")
        if nplain > 15:
            col.cls("plain-args>15")
        for b, d in res:
            col.fail(b, d, case)
        if not res and len(col.samples) < 3 and len(kinds) >= 2 and not case.get("ill_typed"):
            col.sample({"signature": sig_of(m), "values": case["values"], "forms": case["forms"]})

    hyp_run(body, case_strategy(tier), N_EX[tier], seedv, key=lambda c: [c["method"], c["values"], c["forms"], c.get("ill_typed"), c.get("app_id")], col=col)
