"""C17 - reading a routine-local variable before writing it is rejected (independent definite-assignment oracle)."""
from __future__ import annotations

from hypothesis import strategies as st

from .. import diff
from ..avm.interp import BudgetExceeded, run_prog
from ..avm.prims import Unsupported
from ..recipe import dataflow, gen, gen_sub, legal, nodes as N
from ..recipe.build import Builder
from ..runner import Collector, hyp_run, sha
from ..shrink import case_shrinks
from ..teal import parser as tp

ID = "C17"
LEVEL = "exploration"
RULE = (
    "Recipes from the core and subroutine grammars generated WITHOUT the usual initialising stores, so loads and stores "
    "of 1..6 scratch-backed variables (automatically and explicitly numbered) are sprinkled over If-without-else, Cond "
    "arms, zero-trip While/For loops, Break/Continue exits, early Return, code after Return/Approve/Err and nested "
    "loops; some variables are shared between routines (never to be rejected for this reason). Oracle: an independent "
    "definite-assignment analysis on the recipe (all branches feasible, code after an exit unreachable): compilation "
    "must fail with 'load occurs before store' iff some routine-local variable has a reachable load with a store-free "
    "path to it, and the chained TealCompileError's sourceExpr must be a load of one of the flagged variables; when the "
    "analysis flags nothing the program must compile, and (recipes without shared variables) no execution on 2 contexts "
    "may read an unwritten slot. History family: a helper subroutine is first compiled as part of a Router (or a plain "
    "program), then a second program with 1..16 fresh variables that also calls the helper leaves one variable unwritten - "
    "must be rejected whatever was compiled before; with none left out it must compile. non-trivial = some variable has a store nested inside a control construct and a load; "
    "distinct by recipe."
)
ASSUMPTIONS = [
    "variables written only through DynamicScratchVar / by-reference parameters are outside the generator (PyTeal is known to reject those conservatively; the property only states the other direction)",
    "ABI-backed variables are excluded (frame cells under frame pointers are not scratch-backed)",
]
SHARDS = {"quick": 16, "thorough": 16}
N_EX = {"quick": 120, "thorough": 5000}
MIN_NONTRIVIAL = {"quick": 300, "thorough": 5000}
OPTS = {"no_init": True, "abi_vars": 0, "refs": False, "itxn": False}


def _compile(recipe, cfg):
    """-> ('teal', text, None) | ('lbs', exc, slots-by-var) | ('other-error', exc, None) | ('crash', exc, None)"""
    import pyteal as pt

    diff.reset_pyteal_state()
    try:
        b = Builder(recipe, pt)
        ast = b.build()
        try:
            teal = pt.compileTeal(ast, diff.mode_of(recipe), version=cfg["version"], optimize=diff.optimize_of(cfg))
            return "teal", teal, None
        except diff.pyteal_errors() as e:
            c = e
            while c is not None:
                if isinstance(c, pt.TealCompileError) and "load occurs before store" in str(c):
                    return "lbs", c, b
                c = c.__cause__
            return "other-error", e, None
    except diff.pyteal_errors() as e:
        return "other-error", e, None
    except N.RecipeError:
        raise
    except Exception as e:  # noqa
        return "crash", e, None
    finally:
        diff.reset_pyteal_state()


def _nested_store(recipe) -> bool:
    def walk(n, depth):
        if n[0] == "store" and depth > 0:
            return True
        d = depth + (1 if n[0] in ("if", "cond", "while", "for") else 0)
        return any(walk(c, d) for c in N.children(n))

    loads = any(n[0] == "load" for n in N.recipe_nodes(recipe))
    return loads and (walk(recipe["main"], 0) or any(walk(r["body"], 0) for r in recipe.get("routines", [])))


def run_case(case, col=None):
    recipe = case["recipe"]
    flagged = dataflow.analyse(recipe)
    must_fail = any(flagged.values())
    # PyTeal merges straight-line blocks before the check, so a load placed after Return/Break/... in the same Seq is
    # judged as if reachable.  The property only demands rejection when a real path exists; acceptance is demanded
    # only when even the conservative reading (dead code reachable) finds nothing.
    flagged_cons = dataflow.analyse(recipe, dead_code_reachable=True)
    may_fail = any(flagged_cons.values())
    from ..recipe.gen_sub import potential_cycles

    calls = [sorted({nd[1] for nd in N.walk(r["body"]) if nd[0] in ("call", "callN")}) for r in recipe.get("routines", [])]
    recursive = bool(potential_cycles(calls)) if calls else False
    out = []
    shared = False
    used = dataflow.routine_vars(recipe)
    keys = list(used)
    for i, a in enumerate(keys):
        for b in keys[i + 1:]:
            if used[a] & used[b]:
                shared = True
    if col:
        col.cls("expect:" + ("reject" if must_fail else ("either(dead-code load)" if may_fail else "accept")))
        if shared:
            col.cls("has:variable-shared-between-routines")
    for cfg in case["configs"]:
        kind, val, b = _compile(recipe, cfg)
        if kind == "crash":
            if col:
                col.cls("compile-crash(C20's business)")
            continue
        if kind == "other-error":
            if col:
                col.cls("other-rejection")
            continue
        if must_fail:
            if kind == "teal":
                names = sorted(n for s in flagged.values() for n in s)
                out.append(("accepted-load-before-store", "cfg=%s: variable(s) %s can be loaded before any store along some path, yet the program compiled\n--- TEAL ---\n%s" % (cfg, names, diff.short_teal(val, 60))))
                break
            # error must identify a load of a flagged variable
            se = getattr(val, "sourceExpr", None)
            slot = getattr(se, "slot", None)
            ok = False
            cands = []
            # PyTeal reports only the first error; it may be a load in dead code (judged as if reachable, see above)
            for fl in (flagged, flagged_cons):
                for rk, names in fl.items():
                    for nm in names:
                        if nm not in cands:
                            cands.append(nm)
            for nm in cands:
                v = b.vars.get(nm)
                if v is None:
                    for locs in getattr(b, "locals_built", []):
                        if nm in locs and getattr(locs[nm], "slot", None) is slot:
                            ok = True
                elif getattr(v, "slot", None) is slot:
                    ok = True
            if slot is None or type(se).__name__ != "ScratchLoad":
                out.append(("error-without-load", "cfg=%s: rejected with 'load occurs before store' but the error does not carry the offending load (sourceExpr=%r)" % (cfg, se)))
                break
            if not ok:
                out.append(("error-wrong-variable", "cfg=%s: rejected, but the reported load (%s) is not a load of any variable that can be read before being written (%s)" % (cfg, se, cands)))
                break
            if col:
                col.cls("rejected-as-expected")
        elif may_fail:
            if col:
                col.cls("dead-code-load:" + ("rejected" if kind == "lbs" else "accepted") + " (either allowed)")
        else:
            if kind == "lbs":
                out.append(("rejected-definitely-assigned", "cfg=%s: every load of every routine-local variable is preceded by a store on all paths, yet compilation failed: %s" % (cfg, str(val)[:200])))
                break
            if col:
                col.cls("accepted-as-expected")
            # recursion spill code loads every local slot of the caller, written or not: not a user-visible read
            if not shared and not recursive and case.get("ctxs"):
                try:
                    prog = tp.parse(val)
                except tp.TealSyntaxError:
                    continue
                for ci, c in enumerate(diff.ctx_list(case)):
                    try:
                        ir = run_prog(prog, c, track_uninit=True)
                    except (BudgetExceeded, Unsupported):
                        continue
                    if col:
                        col.cls("executed")
                    if ir.uninit_loads:
                        s, ln = ir.uninit_loads[0]
                        out.append(("dynamic-uninit-load", "cfg=%s ctx#%d: compiled program read scratch slot %d (line %d) before any write\n--- TEAL ---\n%s" % (cfg, ci, s, ln + 1, diff.short_teal(val, 60))))
                        break
                if out:
                    break
    return out


def run_history_case(case, col=None):
    from .. import c17_hist

    kind, val = c17_hist.run_history(case)
    out = []
    if kind == "crash":
        return [("history-crash:%s" % type(val).__name__, "%r for %s" % (val, case))]
    if case["left_out"] is None:
        if kind != "accepted":
            out.append(("history:rejected-initialised", "every variable is stored before it is read, yet after the history %s the program was rejected: %s" % (case, str(val)[:200])))
    elif kind == "accepted":
        out.append(("history:accepted-load-before-store", "variable #%d of %d is read before any store, yet the program compiled after the history %s (a helper subroutine shared with what was compiled before)" % (case["left_out"], case["nv"], {k: case[k] for k in ("pre", "hl", "use_helper", "version")})))
    elif col:
        col.cls("history:rejected-as-required")
    return out


def judge(case):
    if "left_out" in case:
        return run_history_case(case)
    return run_case(case)


def shrinks(case):
    if "left_out" in case:
        return []
    return case_shrinks(case)


@st.composite
def case_strategy(draw, tier):
    budget = 40 if tier == "quick" else 80
    if draw(st.integers(0, 9)) < 5:
        recipe = draw(gen.core_recipe(max_budget=budget, opts=dict(OPTS)))
    else:
        recipe = draw(gen_sub.sub_recipe(max_budget=budget, opts=dict(OPTS)))
    lo = legal.min_version(recipe)
    vs = sorted({lo, draw(st.integers(lo, 10)), 10})
    cfgs = []
    for v in vs:
        cfg = {"version": v}
        if draw(st.integers(0, 2)) == 0:
            cfg["scratch_slots"] = draw(st.booleans())
        if v >= 8 and draw(st.integers(0, 2)) == 0:
            cfg["frame_pointers"] = draw(st.booleans())
        cfgs.append(cfg)
    ctxs = [draw(gen.one_context(recipe["mode"])).to_json() for _ in range(2)]
    return {"recipe": recipe, "ctxs": ctxs, "configs": cfgs}


def shard(tier, seedv, k, n, col: Collector):
    def body(case):
        col.case()
        recipe = case["recipe"]
        res = run_case(case, col)
        if _nested_store(recipe):
            col.nontriv(sha(recipe))
        for b, d in res:
            col.fail(b, d, case)
        if not res and len(col.samples) < 3 and N.size(recipe["main"]) < 40 and not recipe.get("routines"):
            col.sample({"main": recipe["main"], "flagged": {str(k2): sorted(v) for k2, v in dataflow.analyse(recipe).items()}})

    hyp_run(body, case_strategy(tier), N_EX[tier], seedv, key=lambda c: c["recipe"], col=col)

    def hbody(case):
        col.case()
        col.cls("history:pre=%s" % case["pre"])
        if case["left_out"] is not None and case["pre"] != "none":
            col.nontriv(sha(case))
        for b, d in run_history_case(case, col):
            col.fail(b, d, case)

    hist = st.fixed_dictionaries({
        "hl": st.integers(1, 4), "nv": st.integers(1, 16), "version": st.sampled_from([5, 6, 8, 10]),
        "pre": st.sampled_from(["router", "router", "program", "none"]), "use_helper": st.sampled_from([True, True, False]),
    }).flatmap(lambda d: st.one_of(st.none(), st.integers(0, d["nv"] - 1), st.integers(0, d["nv"] - 1)).map(lambda lo: dict(d, left_out=lo)))
    from .. import env

    hyp_run(hbody, hist, 40 if tier == "quick" else 1500, env.derive(seedv, "history"), col=col)
