"""C18 - comments, pragmas, nonces and names never change the code (metamorphic: base vs annotated variant)."""
from __future__ import annotations

import copy

from hypothesis import strategies as st

from .. import diff
from ..avm.interp import BudgetExceeded, run_prog
from ..avm.prims import Unsupported
from ..recipe import gen, gen_sub, legal, nodes as N
from ..recipe.build import Builder
from ..runner import Collector, hyp_run, sha
from ..shrink import case_shrinks
from ..teal import canon, parser as tp

ID = "C18"
LEVEL = "exploration"
RULE = (
    "A base recipe (core / subroutine grammars) and an annotated variant of it: Comment(text, e) wrappers at random "
    "nodes (conditions, branch arms, loop headers, operands, statements), bare Comment statements (also as the only "
    "content of an arm), Assert(..., comment=text), Pragma(e, compiler_version=<satisfied constraint>), Nonce(base, "
    "nonce, e) around the program, changed subroutine names; texts from st.text() biased to every kind of line break, "
    "quotes, '//', ';', '#pragma', label-like 'foo:', TEAL opcode names. Oracle: every line of the annotated output "
    "lexes; after dropping comments, alpha-renaming labels and removing Nonce's documented push-and-pop the instruction "
    "streams are equal, or (counted as layout-only) equal after jump threading / canonical block order; and both "
    "programs give identical outcomes on 2 generated contexts. non-trivial = >=2 annotations of >=2 kinds; distinct by "
    "(recipe, annotations)."
)
ASSUMPTIONS = [
    "vf/teal/parser.py tokenizer (quote-aware comment/`;` handling as in the assembler)",
    "block placement differences that vanish under jump threading are layout-only (DESIGN.md section 3)",
]
SHARDS = {"quick": 16, "thorough": 16}
N_EX = {"quick": 70, "thorough": 3000}
MIN_NONTRIVIAL = {"quick": 300, "thorough": 3000}

NASTY = ["\n", "\r", "\r\n", "10%\rdone", "{x}", "{", "%s", "\x0b", "\x0c", "\x1c", "\x1d", "\x1e", "\x85", " ", " ", '"', "\\", "//", ";", "#pragma version 2", "#pragma", "foo:", "main_l1:", "int 0", "return", "err", "pop", "b main_l1", "callsub f", "retsub", "\t", " ", "é", "\x00"]


def nasty_text():
    return st.lists(st.one_of(st.sampled_from(NASTY), st.text(max_size=4), st.sampled_from(["a", "b c", "x1"])), min_size=0, max_size=6).map("".join)


def name_text():
    return st.one_of(
        st.sampled_from(["f", "helper", "my_sub", "a b", "x;y", "q//r", "s\tt", "__swap__(a, b) -> (b, a)", "n: int 0", "é", "f; int 0 ; return", "a\nint 0\nreturn", "a\rb", "a b", "1abc", "", "main", "main_l1"]),
        st.text(alphabet="abAB01_ ;:/#()-{}%$", min_size=1, max_size=12),
        nasty_text().filter(lambda s: len(s) > 0),
    )


class Annotator:
    def __init__(self, draw):
        self.draw = draw
        self.kinds = []
        self.excluded_f22 = 0

    def chance(self, k, n=10):
        return self.draw(st.integers(1, n)) <= k

    def text(self):
        return self.draw(nasty_text())

    def node(self, n, p):
        """annotated copy of node n; p = probability (in 1/20) of wrapping"""
        t = n[0]
        out = list(n)
        # recurse
        if t in ("un",):
            out[2] = self.node(n[2], p)
        elif t == "bin":
            out[2], out[3] = self.node(n[2], p), self.node(n[3], p)
        elif t == "nary":
            out[2] = [self.node(x, p) for x in n[2]]
        elif t == "tern":
            # Substring/Extract/Replace choose their opcode by looking for literal Int operands: wrapping such an operand
            # is finding F22 and is kept out of the search (excluded by construction, counted)
            lit = n[1] in ("Substring", "Extract", "Replace")
            kids = []
            for c in (n[2], n[3], n[4]):
                if lit and c[0] == "int":
                    kids.append(c)
                    self.excluded_f22 += 1
                else:
                    kids.append(self.node(c, p))
            out[2], out[3], out[4] = kids
        elif t == "suffix":
            out[1] = self.node(n[1], p)
            if n[2][0] == "int":
                self.excluded_f22 += 1
            else:
                out[2] = self.node(n[2], p)
        elif t == "seq":
            items = []
            for x in n[1]:
                if self.chance(1, 12):
                    items.append(["comment", self.text(), None])
                    self.kinds.append("bare-comment")
                items.append(self.node(x, p))
            out[1] = items
        elif t == "if":
            out[1] = self.node(n[1], p)
            out[2] = self.node(n[2], p)
            out[3] = self.node(n[3], p) if n[3] is not None else None
        elif t == "cond":
            out[1] = [[self.node(a[0], p), self.node(a[1], p)] + list(a[2:]) for a in n[1]]
        elif t == "while":
            out[1], out[2] = self.node(n[1], p), self.node(n[2], p)
        elif t == "for":
            out[1], out[2], out[3], out[4] = self.node(n[1], p), self.node(n[2], p), self.node(n[3], p), self.node(n[4], p)
        elif t == "assert":
            out[1] = [self.node(c, p) for c in n[1]]
            if self.chance(5):
                out = ["assert", out[1], self.text()]
                self.kinds.append("assert-comment")
            else:
                out = ["assert", out[1], None]
        elif t in ("pop", "log"):
            out[1] = self.node(n[1], p)
        elif t == "store":
            out[2] = self.node(n[2], p)
        elif t == "return" and n[1] is not None:
            out[1] = self.node(n[1], p)
        elif t == "gput":
            out[1], out[2] = self.node(n[1], p), self.node(n[2], p)
        elif t in ("call", "callN"):
            out[2] = [a if (isinstance(a, list) and a and a[0] == "ref") else self.node(a, p) for a in n[2]]
        elif t == "comment":
            return ["comment", n[1], self.node(n[2], p) if len(n) > 2 and n[2] is not None else None]
        # wrap
        if t not in ("break", "continue", "comment") and self.draw(st.integers(1, 20)) <= p:
            k = self.draw(st.integers(0, 9))
            if k <= 6:
                self.kinds.append("comment-wrap")
                return ["comment", self.text(), out]
            if k <= 8:
                self.kinds.append("pragma")
                return ["pragma", self.draw(st.sampled_from([">=0.1.0", ">=0.20.0", "<=1.0.0", "^0.27.0", "~0.27", ">0.0.1"])), out]
            self.kinds.append("comment-wrap")
            return ["comment", self.text(), ["comment", self.text(), out]]
        return out


def strip_annotations(n):
    """inverse view: the base node of an annotated node (used by the evaluator-free comparison only for sizes)"""
    return n


def _compile(recipe, cfg, names=None):
    import pyteal as pt

    diff.reset_pyteal_state()
    try:
        ast = Builder(recipe, pt, name_override=names).build()
        if recipe.get("nonce"):
            base, val = recipe["nonce"]
            ast = pt.Nonce(base, val, ast)
        return "teal", pt.compileTeal(ast, diff.mode_of(recipe), version=cfg["version"], assembleConstants=bool(cfg.get("assemble")), optimize=diff.optimize_of(cfg))
    except diff.pyteal_errors() as e:
        return "rejected", e
    except N.RecipeError:
        raise
    except Exception as e:  # noqa
        return "crash", e
    finally:
        diff.reset_pyteal_state()


def run_case(case, col=None):
    base, ann = case["recipe"], case["annotated"]
    names = {int(k): v for k, v in case.get("names", {}).items()}
    out = []
    ctxs = diff.ctx_list(case) if case.get("ctxs") else []
    for cfg in case["configs"]:
        kb, tb = _compile(base, cfg)
        ka, ta = _compile(ann, cfg, names)
        if kb != "teal":
            if col:
                col.cls("base-not-compiled")
            continue
        if ka != "teal":
            # the base program compiles under this configuration: an annotation (comment text, satisfied pragma, valid
            # nonce, subroutine name) must not make it uncompilable, whatever text it contains
            kinds = ",".join(case.get("kinds", []))
            out.append(("annotation-breaks-compilation:%s" % type(ta).__name__, "cfg=%s: the base program compiles, the annotated one (%s; names=%r) raises %s: %s" % (
                cfg, kinds, case.get("names"), type(ta).__name__, str(ta)[:200])))
            break
        try:
            pa = tp.parse(ta)
        except tp.TealSyntaxError as e:
            out.append(("annotated-unlexable", "cfg=%s: annotated output does not lex: %s\n%s" % (cfg, e, diff.short_teal(ta, 40))))
            break
        pb = tp.parse(tb)
        skip = 0
        asm = bool(cfg.get("assemble"))
        if ann.get("nonce"):
            # documented: push the nonce bytes and pop them, in front of the program
            first = [i for i in pa.instrs if i.op not in ("intcblock", "bytecblock")][:2]
            if len(first) == 2 and first[0].op in ("byte", "pushbytes", "bytec", "bytec_0", "bytec_1", "bytec_2", "bytec_3") and first[1].op == "pop":
                skip = pa.instrs.index(first[1]) + 1
            else:
                out.append(("nonce-shape", "cfg=%s: Nonce did not emit `byte <nonce>; pop` in front of the program\n%s" % (cfg, diff.short_teal(ta, 12))))
                break
        # with assembleConstants an annotation constant (nonce bytes) may change block membership/indices of other
        # constants: compare the values loaded, not the loading form (C12 owns the form)
        sa, sb = canon.stream(pa, skip, values=asm), canon.stream(pb, 0, values=asm)
        if sa != sb:
            la, lb = canon.layout_normal(pa, skip, values=asm), canon.layout_normal(pb, 0, values=asm)
            if la != lb:
                k = 0
                while k < min(len(la), len(lb)) and la[k] == lb[k]:
                    k += 1
                out.append(("stream-differs", "cfg=%s: instruction streams differ beyond block placement; first difference at canonical line %d: base %r vs annotated %r\n--- base ---\n%s\n--- annotated ---\n%s" % (
                    cfg, k, lb[k] if k < len(lb) else None, la[k] if k < len(la) else None, diff.short_teal(tb, 45), diff.short_teal(ta, 60))))
                break
            if col:
                col.cls("layout-only-difference")
        elif col:
            col.cls("identical-stream")
        for ci, c in enumerate(ctxs):
            try:
                rb = run_prog(pb, c)
                ra = run_prog(pa, c)
            except (BudgetExceeded, Unsupported):
                continue
            if col:
                col.cls("executed-pair")
            if ra.observable() != rb.observable():
                out.append(("behaviour", "cfg=%s ctx#%d: base gives %s, annotated gives %s\n--- annotated ---\n%s" % (cfg, ci, diff.describe_result(rb), diff.describe_result(ra), diff.short_teal(ta, 60))))
                break
        if out:
            break
    return out


def judge(case):
    return run_case(case)


def shrinks(case):
    # shrink the annotated side only towards the base: drop names / nonce, then generic recipe shrinking on both is not
    # meaningful (they must stay in correspondence), so only annotations are minimised
    out = []
    if case.get("names"):
        for k in list(case["names"]):
            c = copy.deepcopy(case)
            del c["names"][k]
            out.append(c)
    if case["annotated"].get("nonce"):
        c = copy.deepcopy(case)
        c["annotated"].pop("nonce")
        out.append(c)
    if len(case["configs"]) > 1:
        for cfg in case["configs"]:
            c = copy.deepcopy(case)
            c["configs"] = [cfg]
            out.append(c)
    # unwrap one annotation at a time
    def unwrap_paths(n, path, acc):
        if isinstance(n, list) and n and isinstance(n[0], str):
            if n[0] in ("comment", "pragma") and len(n) > 2 and n[2] is not None:
                acc.append(path)
            if n[0] == "assert" and len(n) > 2 and n[2] is not None:
                acc.append(path + ("assertc",))
        if isinstance(n, list):
            for i, x in enumerate(n):
                if isinstance(x, list):
                    unwrap_paths(x, path + (i,), acc)

    acc = []
    unwrap_paths(case["annotated"]["main"], ("main",), acc)
    for ri, r in enumerate(case["annotated"].get("routines", [])):
        unwrap_paths(r["body"], ("routines", ri, "body"), acc)
    for path in acc[:40]:
        c = copy.deepcopy(case)
        holder = c["annotated"]
        keys = list(path)
        assertc = keys and keys[-1] == "assertc"
        if assertc:
            keys = keys[:-1]
        parent = None
        node = holder
        for k in keys:
            parent, node = node, node[k]
        if assertc:
            node[2] = None
        else:
            parent[keys[-1]] = node[2]
        out.append(c)
    return out


@st.composite
def case_strategy(draw, tier):
    budget = 40 if tier == "quick" else 80
    w = draw(st.integers(0, 11))
    if w >= 10:
        # assert-heavy programs of the oldest versions (version 2 has no assert op: an Assert is lowered to a branch around
        # err, and its comment must not change that lowering)
        conds = [["bin", "Lt", ["txn", "fee"], ["int", draw(st.sampled_from([0, 1, 1000, 10**9]))]], ["txn", "amount"], ["un", "Not", ["txn", "amount"]], ["int", 1], ["int", 0],
                 ["bin", "Eq", ["txn", "first_valid"], ["int", 5]], ["nary", "And", [["txn", "fee"], ["int", 1]]]]
        items = []
        for _ in range(draw(st.integers(1, 5))):
            k = draw(st.integers(0, 3))
            cs = [conds[draw(st.integers(0, len(conds) - 1))] for _ in range(draw(st.sampled_from([1, 1, 1, 2, 3])))]
            a = ["assert", cs, None]
            if k == 0:
                items.append(["if", conds[draw(st.integers(0, len(conds) - 1))], a, None, "then"])
            elif k == 1:
                items.append(["seq", [["pop", ["int", 3]], a]])
            else:
                items.append(a)
        base = {"mode": draw(st.sampled_from(["app", "sig"])), "level": draw(st.sampled_from([2, 2, 3, 4])), "vars": {}, "routines": [], "main": ["seq", items + [["int", 1]]]}
    elif w < 5:
        base = draw(gen.core_recipe(max_budget=budget))
    else:
        base = draw(gen_sub.sub_recipe(max_budget=budget + 10))
    an = Annotator(draw)
    p = draw(st.sampled_from([1, 2, 3, 5]))
    ann = copy.deepcopy(base)
    ann["main"] = an.node(base["main"], p)
    for i, r in enumerate(base.get("routines", [])):
        ann["routines"][i]["body"] = an.node(r["body"], p)
    names = {}
    for i, r in enumerate(base.get("routines", [])):
        if draw(st.integers(0, 2)) == 0:
            names[str(i)] = draw(name_text())
            an.kinds.append("name")
    if draw(st.integers(0, 3)) == 0:
        b = draw(st.sampled_from(["base16", "base32", "base64"]))
        raw = draw(st.binary(min_size=1, max_size=8))
        import base64 as b64

        val = raw.hex() if b == "base16" else (b64.b32encode(raw).decode() if b == "base32" else b64.b64encode(raw).decode())
        ann["nonce"] = [b, val]
        an.kinds.append("nonce")
    lo = legal.min_version(base)
    vs = sorted({lo, draw(st.integers(lo, 10)), 10})
    if w >= 10:
        vs = sorted({2, 3, draw(st.integers(2, 10))})
    cfgs = []
    for v in vs:
        cfg = {"version": v}
        if draw(st.integers(0, 3)) == 0:
            cfg["scratch_slots"] = draw(st.booleans())
        if draw(st.integers(0, 5)) == 0 and v >= 3:
            cfg["assemble"] = True
        cfgs.append(cfg)
    ctxs = [draw(gen.one_context(base["mode"])).to_json() for _ in range(2)]
    return {"recipe": base, "annotated": ann, "names": names, "kinds": sorted(set(an.kinds)), "nann": len(an.kinds), "ctxs": ctxs, "configs": cfgs}


def shard(tier, seedv, k, n, col: Collector):
    def body(case):
        col.case()
        res = run_case(case, col)
        for kd in case["kinds"]:
            col.cls("annotation:" + kd)
        if case["nann"] >= 2 and len(case["kinds"]) >= 2:
            col.nontriv(sha([case["recipe"], case["annotated"], case["names"]]))
        for b, d in res:
            col.fail(b, d, case)
        if not res and len(col.samples) < 3 and case["nann"] >= 3 and N.size(case["annotated"]["main"]) < 45:
            col.sample({"annotated_main": case["annotated"]["main"], "names": case["names"], "nonce": case["annotated"].get("nonce")})

    hyp_run(body, case_strategy(tier), N_EX[tier], seedv, key=lambda c: [c["recipe"], c["annotated"], c["names"]], col=col)
