"""C13 - literals reach the program byte-for-byte (round-trip through the independent literal grammar)."""
from __future__ import annotations

import base64
import hashlib
import re

from hypothesis import strategies as st

from ..runner import Collector, hyp_run, sha
from ..teal import parser as tp

ID = "C13"
LEVEL = "exploration"
RULE = (
    "Hypothesis-generated literals (str over all non-surrogate code points biased to quotes/backslashes/"
    "newlines/control/non-ASCII/'//'/';', bytes, bytearray, well- and ill-formed base16/32/64, addresses, "
    "method signatures, ints/bool/float) -> compileTeal(Seq(Pop(lit), Int(1))) -> emitted line decoded by "
    "vf/teal/parser.py and compared with Python's own decoding. non-trivial = literal needs >=1 escape "
    "(str), or is a non-empty base-N/bytes/addr/method form, or an int >= 2**32; distinct by (kind, value). "
    "Second family: programs with 2..6 literals that share text or value across kinds (a signature as Bytes(str) and as "
    "MethodSignature, a hex/base32/base64 string as text and as encoded bytes, an address as Addr and as text), compiled "
    "with assembleConstants off and on; every constant-loading site (incl. bytec/intc indices into the constant blocks) "
    "must denote its own literal's value."
)
ASSUMPTIONS = [
    "vf/teal/parser.py implements the go-algorand assembler's tokenizer and literal grammar faithfully",
    "well-formedness of base16/32/64 is RFC 4648 with the padding rules stated in c13.py",
    "lone surrogate code points are outside the quantifier (they have no UTF-8 encoding)",
]
SHARDS = {"quick": 16, "thorough": 16}
N = {"quick": 1500, "thorough": 40000}

TRICKY = ['"', "\\", "\n", "\r", "\t", "\x00", "\x7f", "\x80", "\xff", "//", ";", " ", "'", "\\x", "\\n", " ", "\x85", "\x0b", "\x0c", "\U0001f600", "é", "(", ")", "0x", "b64"]

B32 = "ABCDEFGHIJKLMNOPQRSTUVWXYZ234567"
B64 = "ABCDEFGHIJKLMNOPQRSTUVWXYZabcdefghijklmnopqrstuvwxyz0123456789+/"


def text_strategy():
    piece = st.one_of(
        st.sampled_from(TRICKY),
        st.text(max_size=6),
        st.text(alphabet=st.characters(min_codepoint=0, max_codepoint=0xFF), max_size=6),
        st.text(alphabet="abc \"\\/;\n", max_size=8),
    )
    return st.lists(piece, max_size=8).map("".join)


@st.composite
def case_strategy(draw):
    kind = draw(st.sampled_from(["utf8", "utf8", "utf8", "raw", "bytearray", "base16", "base32", "base64", "addr", "method", "int"]))
    if kind == "utf8":
        return {"kind": kind, "arg": draw(text_strategy())}
    if kind in ("raw", "bytearray"):
        return {"kind": kind, "arg": draw(st.binary(max_size=40)).hex()}
    if kind == "base16":
        b = draw(st.binary(max_size=20))
        s = b.hex()
        s = "".join(c.upper() if draw(st.booleans()) else c for c in s) if draw(st.booleans()) else s
        if draw(st.booleans()):
            s = "0x" + s
        m = draw(st.integers(0, 9))
        if m == 0:
            s = s + draw(st.sampled_from(["0", "g", " ", "0x", "Z"]))
        elif m == 1:
            s = draw(st.sampled_from(["0X", "x", " ", "0x0x"])) + s
        elif m == 2 and s:
            s = s[:-1]
        elif m == 3 and len(b) >= 1:
            # whitespace between / around the byte pairs, total length kept even (Python's bytes.fromhex would skip it)
            ws = draw(st.sampled_from([" ", "\t", "\n", "\r", "\x0b", "\x0c"]))
            body = s[2:] if s.startswith("0x") else s
            pairs = [body[i:i + 2] for i in range(0, len(body), 2)]
            how = draw(st.integers(0, 3))
            if how == 0:
                body = (ws * 2).join(pairs)
            elif how == 1:
                body = ws.join(pairs) + (ws if len(pairs) % 2 == 0 else "")
            elif how == 2:
                body = body + ws * 2
            else:
                body = ws + body + ws
            s = ("0x" if s.startswith("0x") else "") + body
        return {"kind": kind, "arg": s}
    if kind == "base32":
        b = draw(st.binary(max_size=24))
        s = base64.b32encode(b).decode()
        m = draw(st.integers(0, 11))
        if m <= 3:
            s = s.rstrip("=")
        elif m == 4:
            s = s.rstrip("=") + "=" * draw(st.integers(1, 7))
        elif m == 5:
            s = s.rstrip("=") + draw(st.sampled_from(["A", "AA", "AAA", "a", "1", "8", "0", " ", "\n", "=A"]))
        elif m == 6:
            s = draw(st.text(alphabet=B32 + "=", max_size=20))
        elif m == 7 and s.rstrip("="):
            # non-canonical trailing bits
            core = s.rstrip("=")
            s = core[:-1] + draw(st.sampled_from(list(B32)))
        return {"kind": kind, "arg": s}
    if kind == "base64":
        b = draw(st.binary(max_size=24))
        s = base64.b64encode(b).decode()
        m = draw(st.integers(0, 11))
        if m == 0:
            s = s.rstrip("=")
        elif m == 1:
            s = s + draw(st.sampled_from(["=", "A", "AA", "AAA", "A=", "==", " ", "\n", "-", "_"]))
        elif m == 2:
            s = draw(st.text(alphabet=B64 + "=-_", max_size=16))
        elif m == 3:
            s = s.replace("+", "-").replace("/", "_")
        elif m == 4 and s.rstrip("="):
            core = s.rstrip("=")
            s = core[:-1] + draw(st.sampled_from(list(B64))) + s[len(core):]
        return {"kind": kind, "arg": s}
    if kind == "addr":
        pk = draw(st.one_of(st.binary(min_size=32, max_size=32), st.just(bytes(32)), st.just(b"\xff" * 32)))
        s = tp.encode_address(pk)
        m = draw(st.integers(0, 9))
        if m == 0:
            s = s[:-1]
        elif m == 1:
            s = s + "A"
        elif m == 2:
            i = draw(st.integers(0, 57))
            s = s[:i] + draw(st.sampled_from(["a", "1", "0", "8", "=", " ", "\n"])) + s[i + 1 :]
        elif m == 3:
            i = draw(st.integers(0, 57))
            c = draw(st.sampled_from(list(B32)))
            s = s[:i] + c + s[i + 1 :]
        elif m == 4:
            s = draw(st.text(alphabet=B32, min_size=58, max_size=58))
        return {"kind": kind, "arg": s}
    if kind == "method":
        m = draw(st.integers(0, 9))
        if m <= 5:
            name = draw(st.text(alphabet="abcdefgh_XYZ019", min_size=1, max_size=8))
            types = st.sampled_from(["uint64", "byte", "bool", "string", "address", "uint8[]", "(uint64,bool)", "byte[32]", "pay", "account", "uint16[3][]", "(string,(bool,byte))"])
            args = draw(st.lists(types, max_size=5))
            ret = draw(st.sampled_from(["void", "uint64", "string", "(bool,uint8)", "byte[]"]))
            s = "%s(%s)%s" % (name, ",".join(args), ret)
        else:
            s = draw(text_strategy())
        return {"kind": kind, "arg": s}
    # int
    m = draw(st.integers(0, 9))
    if m <= 5:
        v = draw(st.one_of(st.integers(0, 2**64 - 1), st.sampled_from([0, 1, 2**32, 2**63, 2**64 - 1, 255, 256, 65535])))
        return {"kind": "int", "arg": {"t": "int", "v": str(v)}}
    if m == 6:
        return {"kind": "int", "arg": {"t": "int", "v": str(draw(st.sampled_from([-1, 2**64, 2**64 + 1, -(2**63), 2**70])))}}
    if m == 7:
        return {"kind": "int", "arg": {"t": "bool", "v": draw(st.booleans())}}
    if m == 8:
        return {"kind": "int", "arg": {"t": "float", "v": draw(st.sampled_from([0.0, 1.0, 1.5, 2.0**63]))}}
    return {"kind": "int", "arg": {"t": "str", "v": draw(st.sampled_from(["1", "", "0x1"]))}}


# ---------------------------------------------------------------- independent classification


def json_key(a):
    return a if isinstance(a, str) else tuple(sorted(a.items()))


def classify(case):
    """-> ('well', expected_value) | ('ill', None) | ('open', value or None).
    'well': must be accepted and denote value. 'ill': must be rejected (or, if accepted, emitted text must
    lex). 'open': acceptance unspecified; if accepted must denote value (when value is not None)."""
    k, a = case["kind"], case["arg"]
    if k == "utf8":
        return "well", a.encode("utf-8")
    if k in ("raw", "bytearray"):
        return "well", bytes.fromhex(a)
    if k == "base16":
        h = a[2:] if a.startswith("0x") else a
        if len(h) % 2 == 0 and re.fullmatch(r"[0-9a-fA-F]*", h):
            return "well", bytes.fromhex(h)
        return "ill", None
    if k == "base32":
        core = a.rstrip("=")
        npad = len(a) - len(core)
        if not all(c in B32 for c in core):
            return "ill", None
        if len(core) % 8 in (1, 3, 6):
            return "ill", None
        if npad and len(a) % 8 != 0:
            return "ill", None
        if npad >= 8:
            return "ill", None
        val = base64.b32decode(core + "=" * ((8 - len(core) % 8) % 8))
        # non-canonical trailing bits: acceptance open, value as decoded
        canonical = base64.b32encode(val).decode().rstrip("=") == core
        return ("well" if canonical else "open"), val
    if k == "base64":
        core = a.rstrip("=")
        npad = len(a) - len(core)
        if all(c in B64 for c in core) and len(a) % 4 == 0 and npad <= 2 and len(core) % 4 != 1:
            val = base64.b64decode(a)
            canonical = base64.b64encode(val).decode() == a
            return ("well" if canonical else "open"), val
        if all(c in (B64 + "-_") for c in core) and len(a) % 4 == 0 and npad <= 2 and len(core) % 4 != 1 and not ("+" in core or "/" in core):
            return "open", base64.urlsafe_b64decode(a)
        return "ill", None
    if k == "addr":
        try:
            return "well", tp.decode_address(a)
        except tp.TealSyntaxError:
            return "ill", None
    if k == "method":
        if a == "":
            return "ill", None
        val = hashlib.new("sha512_256", a.encode("utf-8")).digest()[:4]
        if re.fullmatch(r"[A-Za-z_][A-Za-z0-9_]*\([A-Za-z0-9_,\[\]\(\)]*\)[A-Za-z0-9_,\[\]\(\)]+", a):
            return "well", val
        return "open", val  # not an ARC-4 signature: rejected, or must hash the given text
    if k == "int":
        if a["t"] == "int":
            v = int(a["v"])
            if 0 <= v < 2**64:
                return "well", v
        return "ill", None
    raise ValueError(k)


def build(case):
    import pyteal as pt

    k, a = case["kind"], case["arg"]
    if k == "utf8":
        return pt.Bytes(a)
    if k == "raw":
        return pt.Bytes(bytes.fromhex(a))
    if k == "bytearray":
        return pt.Bytes(bytearray(bytes.fromhex(a)))
    if k in ("base16", "base32", "base64"):
        return pt.Bytes(k, a)
    if k == "addr":
        return pt.Addr(a)
    if k == "method":
        return pt.MethodSignature(a)
    if k == "int":
        v = {"int": lambda: int(a["v"]), "bool": lambda: bool(a["v"]), "float": lambda: float(a["v"]), "str": lambda: a["v"]}[a["t"]]()
        return pt.Int(v)
    raise ValueError(k)


def judge_multi(case):
    """several well-formed literals in ONE program (the same text may appear as Bytes, as MethodSignature, in another
    base); every site must load the value its own literal denotes, with and without assembleConstants"""
    import pyteal as pt

    from .c12 import _const_of

    wants, lits = [], []
    for item in case["items"]:
        cls, want = classify(item)
        if cls != "well":
            return []
        try:
            lits.append(build(item))
        except pt.TealInputError:
            return []  # the single-literal family reports these
        wants.append(want)
    out = []
    for asm in (False, True):
        try:
            teal = pt.compileTeal(pt.Seq(*[pt.Pop(l) for l in lits], pt.Int(1)), pt.Mode.Application, version=case.get("version", 6), assembleConstants=asm)
            prog = tp.parse(teal)
            sites = [i for i in prog.instrs if i.op not in ("intcblock", "bytecblock", "pop", "return")]
            got = [_const_of(i, prog) for i in sites]
        except Exception as e:  # noqa
            out.append(("multi-crash:%s" % type(e).__name__, "assembleConstants=%s: %r for %r" % (asm, e, case)))
            continue
        if len(got) != len(wants) + 1:
            out.append(("multi-shape", "assembleConstants=%s: %d constant sites for %d literals: %r" % (asm, len(got) - 1, len(wants), teal)))
            continue
        for idx, (g, w) in enumerate(zip(got, wants)):
            if g != w:
                out.append(("multi-wrong-value:%s" % case["items"][idx]["kind"], "assembleConstants=%s: literal #%d %r pushes %r, expected %r, in a program with the literals %r" % (asm, idx, case["items"][idx], g, w, case["items"])))
                break
    return out


def judge(case):
    import pyteal as pt

    if "items" in case:
        return judge_multi(case)
    out = []
    cls, want = classify(case)
    try:
        lit = build(case)
    except pt.TealInputError:
        if cls == "well":
            out.append(("reject-wellformed:%s" % case["kind"], "well-formed literal rejected: %r" % (case,)))
        return out
    except Exception as e:
        out.append(("ctor-crash:%s:%s" % (case["kind"], type(e).__name__), "constructor raised %r for %r" % (e, case)))
        return out
    if cls == "ill" and case["kind"] == "int":
        out.append(("accept-malformed:int", "malformed Int accepted: %r" % (case,)))
        return out
    if cls == "ill" and case["kind"] == "base16":
        # RFC 4648 base16 leaves no room for interpretation: hex digits only, an even number of them
        out.append(("accept-malformed:base16", "malformed base16 literal accepted: %r" % (case,)))
        return out
    mode = pt.Mode.Application
    try:
        teal = pt.compileTeal(pt.Seq(pt.Pop(lit), pt.Int(1)), mode, version=6)
    except Exception as e:
        out.append(("compile-crash:%s:%s" % (case["kind"], type(e).__name__), "compile raised %r for %r" % (e, case)))
        return out
    opname = {"addr": "addr", "method": "method", "int": "int"}.get(case["kind"], "byte")
    try:
        prog = tp.parse(teal)
    except tp.TealSyntaxError as e:
        out.append(("emitted-unlexable:%s" % case["kind"], "emitted text does not lex (%s): %r from %r" % (e, teal, case)))
        return out
    ops = [i.op for i in prog.instrs]
    if ops != [opname, "pop", "int", "return"] or teal.count("\n") != 4:
        out.append(("emitted-shape:%s" % case["kind"], "emitted program is not [literal,pop,int 1,return]: %r from %r" % (teal, case)))
        return out
    got = prog.instrs[0].const
    if want is not None and got != want:
        out.append(("wrong-value:%s" % case["kind"], "literal %r pushes %r, expected %r; line %r" % (case, got, want, teal.split(chr(10))[1])))
    return out


@st.composite
def multi_strategy(draw):
    """2..5 literals sharing text across kinds: a signature as Bytes(str) and MethodSignature, a hex string as Bytes(str)
    and Bytes('base16', .), an address as Addr and as text, a value spelled in three bases, ints equal in value"""
    items = []
    if draw(st.integers(0, 4)) == 0:
        # many repeated integer literals, small (< 128) and large mixed: under assembleConstants each site is an index into
        # the constant block or a pushint, and must still denote its own literal
        n = draw(st.integers(4, 9))
        vals = draw(st.lists(st.one_of(st.integers(0, 127), st.integers(128, 70000), st.sampled_from([2**32, 2**63, 2**64 - 1])), min_size=n, max_size=n, unique=True))
        for v in vals:
            for _ in range(draw(st.sampled_from([1, 2, 2, 3, 4]))):
                items.append({"kind": "int", "arg": {"t": "int", "v": str(v)}})
        order = draw(st.sampled_from(["grouped", "shuffled"]))
        if order == "shuffled":
            items = list(draw(st.permutations(items)))
        return {"items": items[:40], "version": draw(st.sampled_from([3, 6, 10]))}
    for _ in range(draw(st.integers(1, 2))):
        fam = draw(st.integers(0, 5))
        if fam == 0:
            sig = draw(st.sampled_from(["f()void", "add(uint64,uint64)uint64", "g(string,(bool,byte))byte[]", "a_1(pay,account)uint8"]))
            grp = [{"kind": "utf8", "arg": sig}, {"kind": "method", "arg": sig}]
            if draw(st.booleans()):
                grp.append({"kind": "raw", "arg": hashlib.new("sha512_256", sig.encode()).digest()[:4].hex()})
        elif fam == 1:
            b = draw(st.binary(min_size=0, max_size=10))
            h = b.hex()
            grp = [{"kind": "utf8", "arg": h}, {"kind": "base16", "arg": h}, {"kind": "base16", "arg": "0x" + h}, {"kind": "raw", "arg": h}]
        elif fam == 2:
            pk = draw(st.binary(min_size=32, max_size=32))
            a = tp.encode_address(pk)
            grp = [{"kind": "addr", "arg": a}, {"kind": "utf8", "arg": a}, {"kind": "raw", "arg": pk.hex()}, {"kind": "base32", "arg": a[:56]}]
        elif fam == 3:
            b = draw(st.binary(min_size=0, max_size=10))
            b32 = base64.b32encode(b).decode()
            b64 = base64.b64encode(b).decode()
            grp = [{"kind": "base32", "arg": b32}, {"kind": "base32", "arg": b32.rstrip("=")}, {"kind": "base64", "arg": b64}, {"kind": "utf8", "arg": b32}, {"kind": "utf8", "arg": b64}, {"kind": "raw", "arg": b.hex()}]
        elif fam == 4:
            t = draw(text_strategy())
            grp = [{"kind": "utf8", "arg": t}, {"kind": "raw", "arg": t.encode("utf-8").hex()}, {"kind": "bytearray", "arg": t.encode("utf-8").hex()}]
        else:
            v = draw(st.sampled_from([0, 1, 6, 255, 2**32, 2**64 - 1]))
            grp = [{"kind": "int", "arg": {"t": "int", "v": str(v)}}, {"kind": "utf8", "arg": str(v)}, {"kind": "raw", "arg": v.to_bytes(8, "big").hex()}]
        n = draw(st.integers(2, len(grp)))
        grp = draw(st.permutations(grp))[:n]
        for g in grp:
            for _ in range(draw(st.sampled_from([1, 1, 2]))):
                items.append(g)
    items = draw(st.permutations(items))[:6]
    return {"items": list(items), "version": draw(st.sampled_from([3, 6, 10]))}


def nontrivial(case) -> bool:
    if "items" in case:
        return len({(i["kind"], json_key(i["arg"])) for i in case["items"]}) >= 2
    k, a = case["kind"], case["arg"]
    if k == "utf8":
        return any(c in '"\\\n\r\t' or ord(c) < 0x20 or ord(c) > 0x7E for c in a)
    if k == "int":
        return a["t"] == "int" and abs(int(a["v"])) >= 2**32
    return len(a) > 0


def shard(tier, seedv, k, n, col: Collector):
    def body(case):
        col.case()
        cls, _ = classify(case)
        col.cls("%s/%s" % (case["kind"], cls))
        res = judge(case)
        if nontrivial(case):
            col.nontriv(sha(case))
        for b, d in res:
            col.fail(b, d, case)
        if not res and nontrivial(case) and case["kind"] in ("utf8", "base32", "method"):
            col.sample(case)

    hyp_run(body, case_strategy(), N[tier], seedv, col=col)

    def mbody(case):
        col.case()
        col.cls("multi-literal program")
        kinds = {i["kind"] for i in case["items"]}
        texts = [i["arg"] for i in case["items"] if isinstance(i["arg"], str)]
        if len(kinds) >= 2 and len(set(texts)) < len(texts):
            col.cls("multi:same text under >=2 literal kinds")
        res = judge_multi(case)
        if nontrivial(case):
            col.nontriv(sha(case))
        for b, d in res:
            col.fail(b, d, case)

    from .. import env

    hyp_run(mbody, multi_strategy(), N[tier] // 10, env.derive(seedv, "multi"), col=col)


def shrinks(case):
    if "items" in case:
        its = case["items"]
        for i in range(len(its)):
            if len(its) > 1:
                yield dict(case, items=its[:i] + its[i + 1:])
        return
    k, a = case["kind"], case["arg"]
    if isinstance(a, str) and k != "int":
        step = 2 if k in ("raw", "bytearray") else 1
        n = len(a)
        # drop halves, then single chars
        if n > 1:
            yield {"kind": k, "arg": a[: n // 2 // step * step]}
            yield {"kind": k, "arg": a[n // 2 // step * step :]}
        for i in range(0, n, step):
            yield {"kind": k, "arg": a[:i] + a[i + step :]}
        for i in range(n):
            if a[i] not in "aA0":
                yield {"kind": k, "arg": a[:i] + ("A" if k in ("base32", "base64", "addr") else "a") + a[i + 1 :]}
