"""C08 - Router dispatches a call to its handler iff the registration allows it (model-based, full call matrix)."""
# NOTE: no `from __future__ import annotations`
import json

from hypothesis import strategies as st

from .. import diff
from ..avm.context import Ctx
from ..avm.interp import BudgetExceeded, run_prog
from ..avm.prims import Unsupported
from ..router import build as RB
from ..runner import Collector, hyp_run, sha
from ..teal import parser as tp

ID = "C08"
LEVEL = "exploration"
RULE = (
    "Router configurations: 0..5 methods with distinct signatures (0..2 scalar arguments, void or value result; registered "
    "with add_method_handler or the @router.method decorator, optional overriding name, arbitrary MethodConfig over "
    "{NEVER,CALL,CREATE,ALL}^5 or the default), bare actions per OnCompletion with arbitrary CallConfig and action kind "
    "(Expr / Expr ending in Approve / Subroutine / ABIReturnSubroutine), optional clear_state action; every handler logs a "
    "unique tag. Versions 6..10 (scratch and frame-pointer glue). For each router the COMPLETE call matrix is run: "
    "first argument in {each registered selector, an unknown selector, a 3-byte prefix and a 5-byte extension of a "
    "registered one} or no arguments, x OnCompletion in {0,1,2,4,5} x application id in {0, non-zero}; plus the clear-state "
    "program. Oracle: a dispatch model written from the property statement: the expected handler's tag is the only tag "
    "logged and the call is approved; otherwise no tag and the call is rejected or fails. Registrations that can never "
    "run (all NEVER) or are duplicates (same signature, or two signatures with one selector - brute-forced pairs) must be refused at registration; configurations include the uniform ones (all five OnCompletions ALL / CALL / CREATE). non-trivial = router with >= 2 handlers and >= 1 "
    "non-ALL config; evaluations counts (router, call) pairs; distinct by router configuration."
)
ASSUMPTIONS = ["vf/avm semantics", "calls carry exactly the declared number of arguments (arity mismatches are outside the statement)"]
SHARDS = {"quick": 16, "thorough": 16}
N_EX = {"quick": 60, "thorough": 1500}
MIN_NONTRIVIAL = {"quick": 100, "thorough": 3000}
VERSIONS = {"quick": [6, 8, 10], "thorough": [6, 7, 8, 9, 10]}


def compile_router(rc, version, fp=None):
    """-> ('ok', approval, clear, contract) | ('refused', exc) | ('crash', exc)"""
    import pyteal as pt

    diff.reset_pyteal_state()
    try:
        r = RB.build_router(pt, rc)
        opt = pt.OptimizeOptions(frame_pointers=fp) if fp is not None else None
        a, c, contract = r.compile_program(version=version, optimize=opt)
        return ("ok", a, c, contract)
    except diff.pyteal_errors() as e:
        return ("refused", e)
    except Exception as e:  # noqa
        return ("crash", e)
    finally:
        diff.reset_pyteal_state()


def arg_bytes(shape):
    t = shape[0]
    if t == "uint":
        return (5).to_bytes(shape[1] // 8, "big")
    if t == "byte":
        return b"\x05"
    if t == "bool":
        return b"\x80"
    if t == "string":
        return b"\x00\x02hi"
    if t == "address":
        return bytes([7]) * 32
    raise ValueError(shape)


def call_matrix(rc):
    calls = []
    sels = []
    for m in rc.get("methods", []):
        sig = RB.registered_signature(m)
        sel = RB.selector(sig)
        sels.append((sel, [arg_bytes(a) for a in m["args"]]))
        if m.get("alias") and m.get("via") != "decorator":
            sels.append((RB.selector(RB.method_signature(dict(m, name=m["alias"]))), [arg_bytes(a) for a in m["args"]]))
        if m.get("override"):
            # the handler's own (python) name was NOT registered: its selector must be rejected
            sels.append((RB.selector(RB.method_signature(dict(m, name=m.get("fname", m["name"])))), [arg_bytes(a) for a in m["args"]]))
    firsts = [(None, [])]
    for sel, extra in sels:
        firsts.append((sel, extra))
    firsts.append((b"\xde\xad\xbe\xef", []))
    if sels:
        firsts.append((sels[0][0][:3], sels[0][1]))
        firsts.append((sels[0][0] + b"\x00", sels[0][1]))
    for first, extra in firsts:
        args = [] if first is None else [first] + extra
        for oc in (0, 1, 2, 4, 5):
            for create in (False, True):
                calls.append((args, oc, create))
    return calls


def observe(prog, args, oc, create):
    ctx = Ctx(group=[{"ApplicationArgs": list(args), "OnCompletion": oc, "ApplicationID": 0 if create else 1001, "TypeEnum": 6}], app_id=1001)
    r = run_prog(prog, ctx)
    if r.verdict == "fail":
        return "fail", []
    tags = [e[1][4:].decode() for e in r.events if e[0] == "log" and e[1].startswith(b"TAG:")]
    return r.verdict, tags


def never_runnable(rc):
    """registrations the property says must be refused: a method whose config is all NEVER; duplicate signatures"""
    sigs = []
    for m in rc.get("methods", []):
        cfg = m.get("config")
        if cfg is not None and m.get("via") != "decorator" and all(cfg.get(oc, "NEVER") == "NEVER" for oc in RB.OCS):
            return "all-NEVER method config"
        if cfg is not None and m.get("via") == "decorator" and cfg and all(v == "NEVER" for v in cfg.values()):
            return "all-NEVER decorator keywords"
        s = RB.registered_signature(m)
        if s in sigs:
            return "duplicate signature"
        if RB.selector(s) in [RB.selector(x) for x in sigs]:
            # two different signatures with the same 4-byte selector cannot both be dispatched to "their" handler
            return "two signatures with the same selector"
        sigs.append(s)
    return None


def model_config(m):
    cfg = m.get("config")
    if m.get("via") == "decorator":
        return {"no_op": "CALL"} if not cfg else {oc: cfg.get(oc, "NEVER") for oc in RB.OCS}
    return cfg


def run_case(case, col=None):
    rc = case["router"]
    out = []
    bad = never_runnable(rc)
    # model view of the router (decorator defaults resolved)
    rcm = dict(rc, methods=[dict(m, config=model_config(m)) for m in rc.get("methods", [])])
    for cfg in case["configs"]:
        res = compile_router(rc, cfg["version"], cfg.get("fp"))
        if bad:
            if res[0] == "ok":
                out.append(("registration-accepted", "cfg=%s: a router with %s was accepted: %s" % (cfg, bad, json.dumps(rc)[:300])))
                break
            if col:
                col.cls("registration-refused-as-required")
            continue
        if res[0] == "refused":
            out.append(("registration-refused", "cfg=%s: a valid router was refused: %s: %s | %s" % (cfg, type(res[1]).__name__, str(res[1])[:200], json.dumps(rc)[:300])))
            break
        if res[0] == "crash":
            if col:
                col.cls("crash(C20's business):%s" % type(res[1]).__name__)
            continue
        _k, approval, clear, _contract = res
        for name, text in (("approval", approval), ("clear", clear)):
            iss = diff.static_issue(text, cfg["version"])
            if iss is not None:
                out.append(("illegal-teal:%s" % iss.kind, "cfg=%s: %s program is not legal TEAL: %s" % (cfg, name, iss)))
        if out:
            break
        pa, pc = tp.parse(approval), tp.parse(clear)
        for args, oc, create in call_matrix(rcm):
            want = RB.expected_handler(rcm, args, oc, create)
            try:
                verdict, tags = observe(pa, args, oc, create)
            except (BudgetExceeded, Unsupported):
                continue
            if col:
                col.case()
                col.cls("call:expected-" + ("handler" if want else "reject"))
            ok = (verdict == "approve" and tags == [want]) if want else (verdict != "approve" and tags == []) or (verdict == "fail")
            if want is None and verdict == "reject" and tags:
                ok = False
            if not ok:
                kind = "wrong-dispatch" if want else "call-not-rejected"
                if want and verdict != "approve":
                    kind = "allowed-call-rejected"
                out.append((kind, "cfg=%s: call args=%s OnCompletion=%d create=%s: expected %s, observed verdict=%s handlers=%s\nrouter=%s\n%s" % (
                    cfg, [a.hex() for a in args], oc, create, ("handler " + want) if want else "rejection", verdict, tags, json.dumps(rc)[:500], diff.short_teal(approval, 60))))
                break
        if out:
            break
        # clear-state program: exactly the given action, else reject
        try:
            verdict, tags = observe(pc, [], 3, False)
        except (BudgetExceeded, Unsupported):
            continue
        if col:
            col.case()
        if rc.get("clear"):
            if not (verdict == "approve" and tags == ["clear"]):
                out.append(("clear-state", "cfg=%s: clear-state program should run exactly the given action; observed verdict=%s handlers=%s\n%s" % (cfg, verdict, tags, clear)))
                break
        elif verdict == "approve":
            out.append(("clear-state", "cfg=%s: no clear_state action was given, yet the clear-state program approves\n%s" % (cfg, clear)))
            break
    return out


def judge(case):
    return run_case(case)


def shrinks(case):
    rc = case["router"]
    if len(case["configs"]) > 1:
        for cfg in case["configs"]:
            yield dict(case, configs=[cfg])
    for i in range(len(rc.get("methods", []))):
        r2 = dict(rc, methods=rc["methods"][:i] + rc["methods"][i + 1:])
        yield dict(case, router=r2)
    for oc in list(rc.get("bare", {})):
        r2 = dict(rc, bare={k: v for k, v in rc["bare"].items() if k != oc})
        yield dict(case, router=r2)
    if rc.get("clear"):
        yield dict(case, router=dict(rc, clear=None))
    for i, m in enumerate(rc.get("methods", [])):
        if m["args"]:
            m2 = dict(m, args=[])
            yield dict(case, router=dict(rc, methods=rc["methods"][:i] + [m2] + rc["methods"][i + 1:]))
        if m.get("ret"):
            m2 = dict(m, ret=None)
            yield dict(case, router=dict(rc, methods=rc["methods"][:i] + [m2] + rc["methods"][i + 1:]))


CCS = ["NEVER", "CALL", "CREATE", "ALL"]
COLLIDING = [
    ("m8916", "m12207", [], None), ("m77541", "m131918", [], None),
    ("m122731", "m149491", [["uint", 64]], ["uint", 64]), ("m52739", "m180299", [["uint", 64]], ["uint", 64]),
    ("m34421", "m50719", [["string"], ["bool"]], ["string"]), ("m4749", "m73158", [["string"], ["bool"]], ["string"]),
]
ARGS = [["uint", 64], ["uint", 8], ["bool"], ["string"], ["address"], ["byte"]]


@st.composite
def router_strategy(draw, allow_bad=True):
    nm = draw(st.integers(0, 5))
    methods = []
    for i in range(nm):
        via = draw(st.sampled_from(["add", "add", "decorator"]))
        m = {"name": "m%d" % i, "args": [draw(st.sampled_from(ARGS)) for _ in range(draw(st.sampled_from([0, 0, 1, 2])))], "ret": draw(st.sampled_from([None, None, ["uint", 64], ["string"], ["bool"]])), "via": via}
        k = draw(st.integers(0, 9))
        if via == "add":
            if k == 0:
                m["config"] = None  # default
            elif k == 1:
                # uniform configs: the same CallConfig for every OnCompletion (all-ALL makes the condition the constant 1)
                cc = draw(st.sampled_from(["ALL", "ALL", "CALL", "CREATE"]))
                m["config"] = {oc: cc for oc in RB.OCS}
            else:
                cfg = {}
                for oc in RB.OCS:
                    v = draw(st.sampled_from(CCS + ["NEVER", "NEVER"]))
                    if v != "NEVER":
                        cfg[oc] = v
                if not cfg and not (allow_bad and draw(st.integers(0, 5)) == 0):
                    cfg = {draw(st.sampled_from(RB.OCS)): draw(st.sampled_from(CCS[1:]))}
                m["config"] = cfg
        else:
            if k == 0:
                m["config"] = {}
            elif k == 1:
                cc = draw(st.sampled_from(["ALL", "ALL", "CALL", "CREATE"]))
                m["config"] = {oc: cc for oc in RB.OCS}
            else:
                cfg = {}
                for oc in RB.OCS:
                    if draw(st.integers(0, 2)) == 0:
                        cfg[oc] = draw(st.sampled_from(CCS))
                if cfg and all(v == "NEVER" for v in cfg.values()) and not (allow_bad and draw(st.integers(0, 3)) == 0):
                    cfg[draw(st.sampled_from(sorted(cfg)))] = draw(st.sampled_from(CCS[1:]))
                m["config"] = cfg
        if draw(st.integers(0, 4)) == 0:
            m["override"] = draw(st.sampled_from(["renamed%d" % i, "do_it%d" % i]))
            if via == "add" and draw(st.booleans()):
                m["presig"] = True
        if via == "add" and draw(st.integers(0, 5)) == 0:
            m["alias"] = "alias%d" % i
        methods.append(m)
    if allow_bad and nm >= 2 and draw(st.integers(0, 14)) == 0:
        methods[1] = dict(methods[0], via="add")  # duplicate signature
    elif allow_bad and nm >= 2 and draw(st.integers(0, 14)) == 0:
        # two different signatures whose selectors collide (pairs found by brute force over m<i><shape>)
        a, b, args, ret = draw(st.sampled_from(COLLIDING))
        i, j = draw(st.sampled_from([(0, 1), (1, 0), (0, nm - 1)]))
        if i != j:
            for idx, nme in ((i, a), (j, b)):
                methods[idx] = dict(methods[idx], name=nme, args=list(args), ret=ret)
                methods[idx].pop("override", None)
                methods[idx].pop("alias", None)
                methods[idx].pop("presig", None)
    bare = {}
    for oc in RB.OCS:
        if draw(st.integers(0, 2)) == 0:
            bare[oc] = {"cfg": draw(st.sampled_from(CCS[1:])), "kind": draw(st.sampled_from(["expr", "expr-approve", "sub", "abi"]))}
    clear = draw(st.sampled_from([None, "expr", "expr-approve", "sub", "abi"]))
    return {"methods": methods, "bare": bare, "clear": clear}


@st.composite
def case_strategy(draw, tier):
    rc = draw(router_strategy())
    cfgs = []
    for v in VERSIONS[tier]:
        cfg = {"version": v}
        if v >= 8 and draw(st.integers(0, 3)) == 0:
            cfg["fp"] = False
        cfgs.append(cfg)
    return {"router": rc, "configs": cfgs}


def shard(tier, seedv, k, n, col: Collector):
    def body(case):
        rc = case["router"]
        res = run_case(case, col)
        nh = len(rc["methods"]) + len(rc["bare"])
        nonall = any(v != "ALL" for m in rc["methods"] for v in (m.get("config") or {"no_op": "CALL"}).values()) or any(b["cfg"] != "ALL" for b in rc["bare"].values())
        col.cls("routers")
        if nh >= 2 and nonall:
            col.nontriv(sha(rc))
        for b, d in res:
            col.fail(b, d, case)
        if not res and len(col.samples) < 2 and nh >= 3:
            col.sample({"router": rc, "calls_in_matrix": len(call_matrix(rc))})

    hyp_run(body, case_strategy(tier), N_EX[tier], seedv, key=lambda c: c["router"], col=col)
