#!/venv/bin/python
"""Self-test of the reference AVM interpreter: hand-computed examples taken from the AVM specification text
(TEAL_opcodes / go-algorand semantics), the ones that are easy to get wrong."""
import os, sys
sys.path.insert(0, os.path.dirname(os.path.dirname(os.path.abspath(__file__))))
from vf.avm.interp import run_teal
from vf.avm.context import Ctx

def run(body, v=8, ctx=None):
    r = run_teal("#pragma version %d\n%s" % (v, body), ctx or Ctx())
    return r

CASES = [
    # (name, program, expected)   expected: int value | ("fail", kind) | ("logs", [hex...])
    ("getbit on bytes: bit 0 is the MSB of byte 0", "byte 0x80\nint 0\ngetbit\nreturn", 1),
    ("getbit on bytes: bit 7 is the LSB of byte 0", "byte 0x80\nint 7\ngetbit\nreturn", 0),
    ("getbit on uint64: bit 0 is the LSB", "int 1\nint 0\ngetbit\nreturn", 1),
    ("getbit on uint64: bit 63", "int 1\nint 63\ngetbit\nreturn", 0),
    ("setbit on bytes", "byte 0x00\nint 0\nint 1\nsetbit\nbyte 0x80\n==\nreturn", 1),
    ("setbit on uint64", "int 0\nint 3\nint 1\nsetbit\nint 8\n==\nreturn", 1),
    ("getbit beyond length fails", "byte 0x80\nint 8\ngetbit\nreturn", ("fail", "BOUNDS")),
    ("extract s 0 = to the end", "byte 0x0102030405\nextract 2 0\nbyte 0x030405\n==\nreturn", 1),
    ("extract3 with length 0 is empty", "byte 0x0102030405\nint 2\nint 0\nextract3\nlen\nint 0\n==\nreturn", 1),
    ("extract beyond end fails", "byte 0x0102\nextract 1 5\nlen\nreturn", ("fail", "BOUNDS")),
    ("substring s e", "byte 0x0102030405\nsubstring 1 3\nbyte 0x0203\n==\nreturn", 1),
    ("substring3 end before start fails", "byte 0x0102030405\nint 3\nint 1\nsubstring3\nlen\nreturn", ("fail", "BOUNDS")),
    ("extract_uint16 big endian", "byte 0x01020304\nint 1\nextract_uint16\nint 515\n==\nreturn", 1),
    ("extract_uint64 out of range", "byte 0x0102\nint 0\nextract_uint64\nreturn", ("fail", "BOUNDS")),
    ("itob 8 bytes big endian", "int 258\nitob\nbyte 0x0000000000000102\n==\nreturn", 1),
    ("btoi empty is 0", "byte 0x\nbtoi\n!\nreturn", 1),
    ("btoi of 9 bytes fails", "byte 0x000000000000000001\nbtoi\nreturn", ("fail", "ARITH")),
    ("+ overflow fails", "int 18446744073709551615\nint 1\n+\nreturn", ("fail", "ARITH")),
    ("- underflow fails", "int 1\nint 2\n-\nreturn", ("fail", "ARITH")),
    ("* overflow fails", "int 4294967296\nint 4294967296\n*\nreturn", ("fail", "ARITH")),
    ("/ by zero fails", "int 1\nint 0\n/\nreturn", ("fail", "ARITH")),
    ("mulw high, low", "int 18446744073709551615\nint 2\nmulw\nint 18446744073709551614\n==\nswap\nint 1\n==\n&&\nreturn", 1),
    ("addw carry, low", "int 18446744073709551615\nint 1\naddw\nint 0\n==\nswap\nint 1\n==\n&&\nreturn", 1),
    ("divmodw (1<<64 + 5) / 2", "int 1\nint 5\nint 0\nint 2\ndivmodw\nint 1\n==\nassert\nint 0\n==\nassert\nint 9223372036854775810\n==\nassert\nint 0\n==\nreturn", 1),
    ("divw quotient overflow fails", "int 2\nint 0\nint 1\ndivw\nreturn", ("fail", "ARITH")),
    ("divw", "int 1\nint 0\nint 2\ndivw\nint 9223372036854775808\n==\nreturn", 1),
    ("exp 0^0 fails", "int 0\nint 0\nexp\nreturn", ("fail", "ARITH")),
    ("exp 2^10", "int 2\nint 10\nexp\nint 1024\n==\nreturn", 1),
    ("expw 2^64 -> (1, 0)", "int 2\nint 64\nexpw\nint 0\n==\nswap\nint 1\n==\n&&\nreturn", 1),
    ("shl by 64 fails", "int 1\nint 64\nshl\nreturn", ("fail", "ARITH")),
    ("shr", "int 256\nint 4\nshr\nint 16\n==\nreturn", 1),
    ("sqrt floor", "int 17\nsqrt\nint 4\n==\nreturn", 1),
    ("bitlen of uint", "int 255\nbitlen\nint 8\n==\nreturn", 1),
    ("bitlen of bytes ignores leading zero bytes", "byte 0x0001\nbitlen\nint 1\n==\nreturn", 1),
    ("== of mixed types fails", "int 1\nbyte 0x01\n==\nreturn", ("fail", "TYPE")),
    ("concat longer than 4096 fails", "int 4000\nbzero\nint 97\nbzero\nconcat\nlen\nreturn", ("fail", "LIMIT")),
    ("b+ minimal length result", "byte 0x00ff\nbyte 0x01\nb+\nbyte 0x0100\n==\nreturn", 1),
    ("b- underflow fails", "byte 0x01\nbyte 0x02\nb-\nlen\nreturn", ("fail", "ARITH")),
    ("b| pads to the longer operand", "byte 0x0001\nbyte 0x02\nb|\nbyte 0x0003\n==\nreturn", 1),
    ("b~ keeps length", "byte 0x00ff\nb~\nbyte 0xff00\n==\nreturn", 1),
    ("b< numeric compare ignoring leading zeros", "byte 0x0002\nbyte 0x03\nb<\nreturn", 1),
    ("bsqrt", "byte 0x0100\nbsqrt\nbyte 0x10\n==\nreturn", 1),
    ("select C!=0 picks B", "int 10\nint 20\nint 1\nselect\nint 20\n==\nreturn", 1),
    ("select C==0 picks A", "int 10\nint 20\nint 0\nselect\nint 10\n==\nreturn", 1),
    ("dig 1", "int 7\nint 8\ndig 1\nint 7\n==\nassert\npop\npop\nint 1\nreturn", 1),
    ("cover 2: top goes below two", "int 1\nint 2\nint 3\ncover 2\nint 2\n==\nassert\nint 1\n==\nassert\nint 3\n==\nreturn", 1),
    ("uncover 2: third from top comes up", "int 1\nint 2\nint 3\nuncover 2\nint 1\n==\nassert\nint 3\n==\nassert\nint 2\n==\nreturn", 1),
    ("bury 2", "int 1\nint 2\nint 3\nbury 2\nint 2\n==\nassert\nint 3\n==\nreturn", 1),
    ("dupn 2 makes three copies in total", "int 5\ndupn 2\n+\n+\nint 15\n==\nreturn", 1),
    ("popn 2", "int 1\nint 2\nint 3\npopn 2\nreturn", 1),
    ("replace2", "byte 0x00000000\nbyte 0xffff\nreplace2 1\nbyte 0x00ffff00\n==\nreturn", 1),
    ("replace3 beyond end fails", "byte 0x0000\nint 1\nbyte 0xffff\nreplace3\nlen\nreturn", ("fail", "BOUNDS")),
    ("setbyte", "byte 0x000000\nint 1\nint 255\nsetbyte\nbyte 0x00ff00\n==\nreturn", 1),
    ("uninitialised scratch reads 0", "load 7\n!\nreturn", 1),
    ("loads / stores", "int 9\nint 44\nstores\nint 9\nloads\nint 44\n==\nreturn", 1),
    ("callsub/retsub without proto leaves the stack alone", "int 3\ncallsub f\nint 4\n==\nreturn\nf:\nint 1\n+\nretsub", 1),
    ("proto 2 1: results are frame cells 0..R-1, args removed", "int 100\nint 7\nint 8\ncallsub f\nint 15\n==\nassert\nint 100\n==\nreturn\nf:\nproto 2 1\nint 0\nint 99\nframe_dig -2\nframe_dig -1\n+\nframe_bury 0\nretsub", 1),
    ("proto: retsub with fewer than R values above the frame fails", "int 1\ncallsub f\nreturn\nf:\nproto 1 1\nretsub", ("fail", "FRAME")),
    ("frame_dig -1 is the last argument", "int 5\nint 6\ncallsub f\nreturn\nf:\nproto 2 1\nframe_dig -1\nretsub", 6),
    ("frame_bury into an argument cell", "int 5\ncallsub f\nreturn\nf:\nproto 1 1\nint 9\nframe_bury -1\nframe_dig -1\nretsub", 9),
    ("bz pops", "int 0\nbz l\nerr\nl:\nint 1\nreturn", 1),
    ("assert 0 fails", "int 0\nassert\nint 1\nreturn", ("fail", "ASSERT")),
    ("err fails", "err", ("fail", "ERR")),
    ("return with a bytes verdict fails", "byte 0x01\nreturn", ("fail", "TYPE")),
    ("app_global_get of a missing key is uint64 0", "byte 0x6b\napp_global_get\n!\nreturn", 1),
    ("app_global_get_ex missing -> (0, 0)", "int 0\nbyte 0x6b\napp_global_get_ex\n!\nswap\n!\n&&\nreturn", 1),
    ("log limit 32", "\n".join(["byte 0x00\nlog"] * 33) + "\nint 1\nreturn", ("fail", "LIMIT")),
    ("txna beyond the array fails", "txna ApplicationArgs 0\nlen\nreturn", ("fail", "BOUNDS")),
    ("Accounts[0] is the sender", "txna Accounts 0\ntxn Sender\n==\nreturn", 1),
    ("sha512_256 of empty", "byte 0x\nsha512_256\nbyte 0xc672b8d1ef56ed28ab87c3622c5114069bdd3ad7b8f9737498d0c01ecef0967a\n==\nreturn", 1),
    ("sha256 of empty", "byte 0x\nsha256\nbyte 0xe3b0c44298fc1c149afbf4c8996fb92427ae41e4649b934ca495991b7852b855\n==\nreturn", 1),
    ("keccak256 of empty", "byte 0x\nkeccak256\nbyte 0xc5d2460186f7233c927e7db2dcc703c0e500b653ca82273b7bfad8045d85a470\n==\nreturn", 1),
    ("itxn ApplicationArgs limit 16", "itxn_begin\nint 6\nitxn_field TypeEnum\n" + "\n".join(["byte 0x00\nitxn_field ApplicationArgs"] * 17) + "\nitxn_submit\nint 1\nreturn", ("fail", "LIMIT")),
]
bad = 0
for name, body, want in CASES:
    r = run(body)
    ok = False
    if isinstance(want, int):
        ok = r.verdict != "fail" and r.value == want
    elif want[0] == "fail":
        ok = r.verdict == "fail" and r.panic == want[1]
    if not ok:
        bad += 1
        print("MISMATCH", name, "->", r.verdict, r.value, r.panic, r.panic_msg)
print("opcode self-tests: %d, mismatches: %d" % (len(CASES), bad))
sys.exit(1 if bad else 0)
