#!/venv/bin/python
"""Self-test: every golden .teal file of the repository (assembled by algod upstream) must pass the static
validity predicate (C04) and the stack/type analyser (C05) - guards against the langspec/analyser being too strict."""
import glob, os, sys
sys.path.insert(0, os.path.dirname(os.path.dirname(os.path.abspath(__file__))))
from vf.teal import static, parser as tp
try:
    from vf.teal import absint
except Exception:
    absint = None
repo = os.environ.get("VERIF_REPO", "/repo")
files = sorted(glob.glob(repo + "/tests/**/*.teal", recursive=True) + glob.glob(repo + "/examples/**/*.teal", recursive=True))
bad = 0
stats = [0, 0, 0]
nun = 0
for f in files:
    text = open(f).read().rstrip("\n")
    annotated = text.startswith("// GENERATED TEAL")
    if annotated:
        text = text.split("\n", 1)[1]  # annotate_teal_headers banner line
    try:
        p = tp.parse(text)
    except Exception as e:
        print("PARSE", f, e); bad += 1; continue
    best = None
    for mode in ("app", "sig"):
        sure, unsure, prog = static.check_program(text, p.version, mode)
        sure = [i for i in sure if not (annotated and i.kind == "pragma")]
        if absint is not None and prog is not None and not sure:
            an = absint.analyse(prog, mode)
            sure = sure + [i for i in an.issues if i.sure]
            if mode == "app":
                stats[0] += an.analysed; stats[1] += len(an.not_analysed); stats[2] += an.joins
        if best is None or len(sure) < len(best[0]):
            best = (sure, unsure, mode)
    if best[0]:
        bad += 1
        print("ISSUES", f, best[2])
        for i in best[0][:5]:
            print("    ", i)
    nun += len(best[1])
print("golden files: %d, with issues: %d, unsure notes: %d; routines analysed %d, not analysed %d, joins %d" % (len(files), bad, nun, stats[0], stats[1], stats[2]))
sys.exit(1 if bad else 0)
