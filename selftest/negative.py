#!/venv/bin/python
"""Self-test: hand-written ill-formed programs must be flagged by the static predicate / the analyser."""
import os, sys
sys.path.insert(0, os.path.dirname(os.path.dirname(os.path.abspath(__file__))))
from vf.teal import static, absint, parser as tp

CASES = [
    ("fall-off-end", 6, "app", "#pragma version 6\nint 1\nbnz l\nint 1\nreturn\nl:\nint 2", "cfg-fall-off-end"),
    ("undefined label", 6, "app", "#pragma version 6\nint 1\nbnz nowhere\nint 1\nreturn", "label"),
    ("op version", 3, "app", "#pragma version 3\nint 1\nint 2\nshl\nreturn", "op-version"),
    ("op mode", 6, "sig", "#pragma version 6\nbyte 0x00\nlog\nint 1\nreturn", "op-mode"),
    ("field version", 2, "app", "#pragma version 2\ntxn NumAssets\nreturn", "field-version"),
    ("txna imm", 6, "app", "#pragma version 6\ntxna ApplicationArgs 300\nlen\nreturn", "imm-range"),
    ("backjump", 3, "app", "#pragma version 3\nl:\nint 1\nbnz l\nint 1\nreturn", "backjump"),
    ("fall into routine", 6, "app", "#pragma version 6\nint 1\ncallsub f\nf:\nretsub", "cfg-fall-into-routine"),
    ("retsub in main", 6, "app", "#pragma version 6\nint 1\nretsub", "cfg-retsub-in-main"),
    ("intc without block", 6, "app", "#pragma version 6\nintc_0\nreturn", "const-index"),
    ("wrong pragma", 6, "app", "#pragma version 5\nint 1\nreturn", "pragma"),
    ("slot placeholder", 6, "app", "#pragma version 6\nint 1\nstore slot#3\nint 1\nreturn", "imm-range"),
    ("dup label", 6, "app", "#pragma version 6\nl:\nint 1\nl:\nreturn", "syntax"),
]
ABS = [
    ("height mismatch", 6, "#pragma version 6\nint 1\nbnz a\nint 5\na:\nint 1\nreturn", "height-mismatch"),
    ("underflow main", 6, "#pragma version 6\npop\nint 1\nreturn", "underflow"),
    ("type error", 6, "#pragma version 6\nbyte 0x00\nint 1\n+\nreturn", "type"),
    ("retsub heights differ", 6, "#pragma version 6\nint 1\ncallsub f\nreturn\nf:\nstore 0\nload 0\nbz g\nint 1\nint 2\nretsub\ng:\nint 1\nretsub", "retsub-height"),
    ("proto result missing", 8, "#pragma version 8\nint 1\ncallsub f\nreturn\nf:\nproto 1 1\nretsub", "retsub-height"),
    ("frame_dig above", 8, "#pragma version 8\nint 1\ncallsub f\nreturn\nf:\nproto 1 1\nframe_dig 0\nretsub", "frame"),
    ("pop below frame", 8, "#pragma version 8\nint 1\ncallsub f\nreturn\nf:\nproto 1 1\npop\nint 1\nretsub", "underflow"),
    ("return bytes", 6, "#pragma version 6\nbyte 0x01\nreturn", "type"),
    ("loop grows stack", 6, "#pragma version 6\nl:\nint 1\nint 1\nbnz l\nint 1\nreturn", "height-mismatch"),
]
bad = 0
for name, v, mode, text, kind in CASES:
    sure, unsure, prog = static.check_program(text, v, mode)
    if not any(i.kind == kind for i in sure):
        bad += 1
        print("NOT FLAGGED (static):", name, [str(i) for i in sure])
for name, v, text, kind in ABS:
    prog = tp.parse(text)
    an = absint.analyse(prog, "app")
    if not any(i.kind == kind for i in an.issues):
        bad += 1
        print("NOT FLAGGED (absint):", name, [str(i) for i in an.issues], an.not_analysed)
print("negative self-tests: %d, missed: %d" % (len(CASES) + len(ABS), bad))
sys.exit(1 if bad else 0)
