chk("C13", "property-based round-trip: Hypothesis literals -> compileTeal -> independent TEAL literal decoder vs Python decoding",
    "Generated-input search (tens of thousands of literals per run, boundary/escape-biased) with a round-trip oracle through an independently written implementation of the assembler's literal grammar; finds escaping/validation slips that example tests cannot enumerate. Not a proof: bounded by generated sizes.",
    "Trusts vf/teal/parser.py as a faithful model of the go-algorand assembler's tokenizer/literal grammar, Python's codecs/hashlib, Hypothesis.",
    "DESIGN.md section 2 C13")

chk("C01", "differential PBT: Hypothesis-generated program recipes -> compileTeal -> reference AVM interpreter vs independent tree-walking evaluator of the documented source semantics",
    "Generated-input search over program trees x versions 2..10 x modes x transaction contexts; the oracle is an independent evaluator of PyTeal's documented source semantics compared with execution of the emitted TEAL on a reference AVM interpreter (verdict, value, ordered logs/state writes/inner txns, numbered slots). Catches wrong-but-stable lowerings that golden-text tests cannot. Bounded by recipe size; not a proof.",
    "Trusts vf/avm (opcode semantics written from the AVM spec; primitives shared with the evaluator), vf/recipe/eval.py (source semantics from the docs), Hypothesis. Costs/fees/ledger rules not modelled.",
    "DESIGN.md section 2 C01")
chk("C16", "differential PBT: generated WideRatio factor lists (boundary-solved) -> compile -> reference AVM interpreter vs Python big-integer arithmetic",
    "Thousands of factor lists per run, including ones solved to straddle the 2^128 running-product and 2^64 quotient boundaries, executed on the reference interpreter and compared with exact Python integer arithmetic (value, or must-fail).",
    "Trusts vf/avm semantics of mulw/addw/divmodw/stack ops; Python integers.",
    "DESIGN.md section 2 C16")
chk("C20", "PBT over degenerate/long/nested control-flow recipes x all compile configurations; oracle = outcome is TEAL or a PyTeal error type, and an independent legality model implies acceptance",
    "Generated-input search biased to degenerate control-flow shapes (loop first, Break/Continue-only bodies, empty arms, conditional-only cycles, long chains) under every version/mode/option/API combination, each compile in a fresh thread at user-level stack depth; any non-PyTeal exception, or rejection of a program that an independent docs-derived legality model calls legal, is a violation.",
    "Trusts vf/recipe/legal.py (conservative minimum versions from docs/langspec); default recursion limit.",
    "DESIGN.md section 2 C20")

chk("C04", "exhaustive constructor sweep + PBT programs -> compileTeal -> independent TEAL parser/langspec/CFG validity predicate",
    "Every public constructor x version x mode x assembleConstants is compiled (exhaustive sweep, ~30k cells) and thousands of generated programs under random options; each emitted text is judged by an independently written TEAL grammar, opcode/field/immediate table and CFG termination analysis. Finds wrong min-versions/modes, out-of-range immediates, unresolved labels/placeholders, fall-through and run-off-the-end that golden tests cannot enumerate.",
    "Trusts vf/teal/langspec.py as the model of the assembler (validated against the 185 golden .teal files; `unsure` entries never judge).",
    "DESIGN.md section 2 C04")
chk("C05", "PBT programs -> compileTeal -> abstract interpretation (stack height/type lattice over the CFG) as validity predicate + dynamic TYPE/UNDERFLOW check on the reference interpreter",
    "Generated programs (recursion, by-ref, loops with Break/Continue, frame-pointer and scratch conventions, optimiser on/off) are analysed per routine: equal relative height on every path, no pop below the routine's own values, retsub/return heights match declared signatures, frame accesses in range, no definitely ill-typed operand; executions of anytype-free programs must not panic with TYPE/UNDERFLOW.",
    "Trusts opcode stack signatures in vf/teal/langspec.py (self-tested on the golden corpus and on hand-written ill-formed programs) and the reference interpreter.",
    "DESIGN.md section 2 C05")

chk("C02", "differential PBT over generated call graphs (recursion, by-ref, ABI routines) x calling conventions: reference AVM interpreter vs independent evaluator, plus a call-boundary stack invariant checked on interpreter traces",
    "Generated call graphs with self/mutual recursion, by-value/by-reference/ABI parameters, none/uint64/bytes/ABI results, locals live across re-entrant calls and calls nested in operands are compiled under both calling conventions and executed; outcomes must equal an evaluator with function-call semantics, and at every retsub the caller's stack below the call must be untouched with exactly the declared results on top. By-ref routines on a recursion cycle must be rejected.",
    "Trusts vf/avm callsub/proto/frame/retsub semantics (go-algorand), vf/recipe/eval.py call semantics; recursion depth bounded by a fuel parameter.",
    "DESIGN.md section 2 C02")

chk("C03", "metamorphic PBT: one generated program compiled under every scratch_slots x frame_pointers x version setting, executed on the reference interpreter; outcomes and routine-exit stacks must coincide",
    "No evaluator involved: the same generated program (optimiser-trigger biased) is compiled under all option settings and 4-5 versions and run on the same generated contexts; any difference in verdict, value, ordered effects or final user-numbered slots, or (for variants differing only in the slot optimisation) in what a routine leaves on the stack at any exit, is a violation.",
    "Trusts vf/avm semantics. Caller-owned stack (spilled local slots) is excluded from the exit comparison because the optimiser legitimately changes the number of slots.",
    "DESIGN.md section 2 C03")

chk("C17", "PBT over recipes with un-initialised variable uses; oracle = independent definite-assignment dataflow analysis on the recipe (must-reject / must-accept / reported load), plus dynamic uninitialised-read tracking on the reference interpreter",
    "Generated routines sprinkle loads and stores of local scratch variables over every control-flow shape; an independently written definite-assignment analysis over the recipe decides whether a store-free path to a load exists. Compilation must fail (naming a load of a flagged variable) exactly then; accepted programs are executed with uninitialised-read tracking.",
    "Trusts vf/recipe/dataflow.py (structured-control-flow semantics of the docs). Loads in dead code after an exit may be rejected or accepted (PyTeal merges blocks before checking); by-ref/dynamic writes are outside the generator.",
    "DESIGN.md section 2 C17")

chk("C12", "PBT over explicit constant pools (all spellings/kinds/frequencies) + general programs: site-by-site alignment of plain vs assembleConstants output through the independent literal decoder, plus differential execution of both texts",
    "Each generated program is compiled with and without assembleConstants; after removing the constant blocks the instruction lists must align, every constant site must denote the same value under the independent literal decoder (pushint/pushbytes, intc*/bytec* resolved through the block, index in range), every other instruction must be identical, and both texts must behave identically on generated inputs.",
    "Trusts vf/teal/parser.py literal grammar and vf/avm.",
    "DESIGN.md section 2 C12")

chk("C18", "metamorphic PBT: base program vs annotated variant (Comment/Assert comment/Pragma/Nonce/subroutine names with hostile texts); canonical instruction streams and CFGs compared, every annotated line lexed, both executed",
    "Annotations with texts biased to line breaks, quotes, `//`, `;`, pragmas, label-like and opcode-like content are inserted at random positions of a generated program; after comment removal, label alpha-renaming and removal of Nonce's push-and-pop the instruction streams must coincide (differences that vanish under jump threading are counted as layout-only), every line of the annotated text must lex, and behaviour on generated inputs must be identical.",
    "Trusts vf/teal/parser.py tokenizer and vf/teal/canon.py normal forms; vf/avm for the behavioural comparison.",
    "DESIGN.md section 2 C18")

chk("C06", "PBT over ARC-4 type shapes/values/construction plans: PyTeal program assembles the value with set(...) and logs encode(); differential against algosdk.abi reference codec; type string/length/dynamic-ness compared too",
    "Generated nested type shapes (bool runs, dynamic members in every position, boundary-sized static members, named tuples) with boundary-biased values are assembled from parts in every documented way (Python literals, expressions, application arguments, copies, Byte sequences) in the main routine and inside subroutines (frame cells); the logged encoding must equal algosdk's, out-of-range integers must be rejected / fail, and the emitted TEAL must be legal.",
    "Trusts algosdk.abi as the ARC-4 reference, vf/avm and the C04 static predicate.",
    "DESIGN.md section 2 C06")
chk("C07", "PBT: reference encodings (algosdk) decoded by PyTeal programs along generated access paths (tuple index, named field, constant/computed array index) and compared with the reference component; out-of-range indices must fail",
    "For generated (type, value, access path) triples the algosdk encoding is fed as an application argument; decode + element access + get()/length()/encode() must log exactly the component's reference encoding, for both back-ends and several versions; computed indices past the end must make the run fail (finding F10 lists the element kinds for which PyTeal does not check).",
    "Trusts algosdk.abi as the ARC-4 reference, vf/avm and the C04 static predicate.",
    "DESIGN.md section 2 C07")

chk("C19", "exhaustive enumeration of all ordered type pairs over a bounded ARC-4 universe (~410 types, ~167k pairs) + PBT of deeper types against structurally perturbed copies; oracle = independent layout normal form (algosdk type strings)",
    "type_spec_is_assignable_to is evaluated on every ordered pair of a bounded universe (exhaustive) and on generated deep types vs perturbed copies; whenever it answers True the two types must have the same ARC-4 layout (byte/uint8, address/byte[32], string/byte[], named/unnamed tuples identified) and sample values must re-encode identically; for differently shaped pairs, Subroutine argument passing and InnerTxnBuilder.MethodCall must refuse the value.",
    "Trusts algosdk.abi type grammar for layouts. Same-layout pairs may be refused (relation may be narrower).",
    "DESIGN.md section 2 C19")

chk("C08", "model-based PBT: generated Router configurations, complete call matrix (selectors x OnCompletion x create) executed on the reference interpreter against a dispatch model written from the property statement",
    "For each generated router (methods via add_method_handler / decorator with arbitrary MethodConfig, bare actions of every kind and CallConfig, optional clear_state) the whole call matrix is executed; exactly the handler the registration allows must run (unique tag) and every other call must be rejected; never-runnable or duplicate registrations must be refused; the clear-state program must be exactly the given action.",
    "Trusts vf/avm and the 40-line dispatch model in vf/router/build.py.",
    "DESIGN.md section 2 C08")

chk("C09", "PBT over method signatures (0..20 params: ABI values, transaction and reference types) with algosdk's AtomicTransactionComposer as the independent ARC-4 client; routed handler logs every received argument; logs compared with reference encodings",
    "Generated signatures straddling the 15-argument cutoff, with transaction and reference parameters at any position, are called through groups built offline by algosdk's AtomicTransactionComposer; the handler's per-parameter logs and the single 0x151f7c75-prefixed result log must equal the reference encodings, typed transaction parameters must be enforced, and the returned contract's signatures/selectors must be the ones the program dispatches on.",
    "Trusts algosdk (ATC + abi) as the ARC-4 calling-convention reference, vf/avm, C04 static predicate.",
    "DESIGN.md section 2 C09")

chk("C14", "PBT over InnerTxnBuilder.MethodCall/ExecuteMethodCall argument lists; the reference interpreter records the inner group, which is decoded the way an ARC-4 callee would and compared with the intended arguments (algosdk encodings)",
    "Generated signatures and argument forms (ABI instances, pre-encoded bytes, reference expressions, transaction field dicts, extra_fields, app_id None) are executed; the recorded inner group must show the right selector, reference encodings in order, one-byte reference indices that resolve through the foreign arrays to the intended account/app/asset, transaction arguments as the preceding group members, and ill-typed argument lists must be refused at build time.",
    "Trusts algosdk.abi encodings, vf/avm inner-transaction recording, C04 static predicate.",
    "DESIGN.md section 2 C14")

chk("C10", "model-based PBT: programs over up to 180 live variables of every storage kind with unique markers; per-variable cell model (evaluator) vs execution; slot-limit and duplicate-id cases must be rejected/accepted exactly at 256",
    "Variables of all kinds (auto/explicit ScratchVars, ABI values as scratch or frame cells incl. >128 locals, DynamicScratchVars re-pointed over time) are written with unique markers and read back in random interleavings across main and subroutines under every option setting; each observed read must equal the model's last store; requested ids must be the slots used; programs needing >256 slots or duplicating a requested id must be rejected, those within the limit accepted.",
    "Trusts vf/recipe/eval.py cell model, vf/avm, C04 static predicate.",
    "DESIGN.md section 2 C10")

chk("C11", "history-based PBT: generated compilation histories (builds, pure queries, compiles, failing compiles, router compiles) replayed in fresh subprocesses under several hash seeds vs a pristine process; plus an in-process Hypothesis RuleBasedStateMachine with a recompile invariant",
    "Each generated history is executed in a fresh interpreter (subprocess) under PYTHONHASHSEED 0/1/4242 and ends by compiling the target twice; both texts must equal the text of a pristine process that only compiled the target. An in-process rule-based state machine additionally checks that every (program, options) always compiles to the text it compiled to first, also after failing compilations, and that repeated Router.compile_program is stable (finding F12 lists where it is not). A third family builds one expression object and compiles it under 2..5 option sets in turn; each text must equal that of a freshly built copy (finding F24 lists where it is not); hand-written targets cover inner method calls with transaction arguments and programs whose only correct outcome is an error.",
    "Trusts subprocess isolation and the worker script (public PyTeal calls only).",
    "DESIGN.md section 2 C11")

chk("C15", "PBT over generated Python source files (markers per line, multi-module, subroutines, huge leading blank regions) compiled with/without source maps in a fresh subprocess; map checked line by line against the generator's own record, JSON round-trip and an independent base64-VLQ decoder; VLQ codec round-trip PBT",
    "Source files are generated with a known marker constant on every interesting line; the compiled TEAL must be byte-identical with and without the map, the R3 map must have one in-order entry per TEAL line pointing at existing lines of existing files, every marker's TEAL line must be attributed to the line it was written on, the v3 JSON must decode back to the same associations both with PyTeal's reader and with an independently written VLQ decoder, and annotated TEAL must reduce to the plain TEAL when comments are stripped.",
    "Trusts the generator's own record of where markers were written; algod-based PC maps are out of scope.",
    "DESIGN.md section 2 C15")
