chk("C13", "property-based round-trip: Hypothesis literals -> compileTeal -> independent TEAL literal decoder vs Python decoding",
    "Generated-input search (tens of thousands of literals per run, boundary/escape-biased) with a round-trip oracle through an independently written implementation of the assembler's literal grammar; finds escaping/validation slips that example tests cannot enumerate. Not a proof: bounded by generated sizes.",
    "Trusts vf/teal/parser.py as a faithful model of the go-algorand assembler's tokenizer/literal grammar, Python's codecs/hashlib, Hypothesis.",
    "DESIGN.md section 2 C13")
