#!/venv/bin/python
"""Run the repository's pinned test suite and compare with /root/.vp/BASELINE.json stable_pass."""
import json, os, subprocess, sys, tempfile
import xml.etree.ElementTree as ET

repo = os.environ.get("VERIF_REPO", "/repo")
base = json.load(open("/root/.vp/BASELINE.json"))
want = set(base["stable_pass"])
fd, path = tempfile.mkstemp(suffix=".xml"); os.close(fd)
env = dict(os.environ); env.pop("PYTEAL_VERIF", None)
cmd = [sys.executable, "-m", "pytest", "-ra", "-q", "-p", "no:cacheprovider", "--timeout=900", "--continue-on-collection-errors", "--junitxml=" + path]
if len(sys.argv) > 1 and sys.argv[1] == "-n":
    cmd += ["-n", "8"]
p = subprocess.run(cmd, cwd=repo, env=env, stdout=subprocess.PIPE, stderr=subprocess.STDOUT, text=True)
passed = set()
for tc in ET.parse(path).getroot().iter("testcase"):
    ok = not any(ch.tag in ("failure", "error", "skipped") for ch in tc)
    if ok:
        passed.add("%s::%s" % (tc.get("classname"), tc.get("name")))
os.unlink(path)
missing = sorted(want - passed)
print("baseline stable_pass=%d passed_now=%d missing=%d" % (len(want), len(passed & want), len(missing)))
for m in missing[:40]:
    print("  MISSING", m)
sys.exit(1 if missing else 0)
