#!/usr/bin/env python3
"""Regenerates MANIFEST.json from the table below (kept valid at all times)."""
import json, os

HERE = os.path.dirname(os.path.dirname(os.path.abspath(__file__)))
props = [json.loads(l) for l in open(os.path.join(HERE, "properties.jsonl"))]
ids = [p["id"] for p in props]

# id -> (technique, level text, level note, design ref)
CHECKS = {}
NA = {}

def chk(pid, technique, text, note, ref):
    CHECKS[pid] = (technique, text, note, ref)

exec(open(os.path.join(HERE, "tools", "manifest_table.py")).read())

checks = []
for pid in ids:
    if pid not in CHECKS:
        continue
    technique, text, note, ref = CHECKS[pid]
    checks.append({
        "property_id": pid,
        "quick_cmd": "./check %s --tier quick" % pid,
        "thorough_cmd": "./check %s --tier thorough" % pid,
        "evidence_file": "evidence/%s.json" % pid,
        "replay_cmd_template": "./check %s --replay {path}" % pid,
        "engine": "vf",
        "level_claimed": {"category": "exploration", "text": text, "design_ref": ref},
        "level_note": note,
        "technique": technique,
    })
na = [{"property_id": pid, "reason": NA.get(pid, "check not built yet in this round (planned, see DESIGN.md section 2)")} for pid in ids if pid not in CHECKS]
m = {
    "version": 1,
    "setup_cmd": "/venv/bin/python -c 'import hypothesis' 2>/dev/null || /venv/bin/pip install -q --no-index --find-links /opt/veriftools/wheels hypothesis",
    "hooks": {
        "guard": "PYTEAL_VERIF",
        "enable": "no source hooks: checks import pyteal from /repo's working tree (VERIF_REPO overrides) and observe only public outputs",
        "baseline_off_cmd": "cd /repo && /venv/bin/python -m pytest -ra -q -p no:cacheprovider --timeout=900 --continue-on-collection-errors",
        "source_commits": [],
        "add_only": True,
    },
    "engines": [{
        "name": "vf",
        "path": "vf/",
        "serves_properties": sorted(CHECKS),
        "kind_free_text": "Hypothesis-driven generators + independent TEAL parser/langspec + reference AVM interpreter + recipe evaluator; sharded over 16 processes; failure bucketing, structural shrinking, replay files",
    }],
    "checks": checks,
    "notes": "All checks: ./check <ID> --tier quick|thorough; exit 0 held / 1 VIOLATION / 2 harness or inconclusive. VERIF_SEED seeds every Hypothesis run (database=None). known_findings.json lists genuine defects (known/fixed).",
    "not_applicable": na,
}
json.dump(m, open(os.path.join(HERE, "MANIFEST.json"), "w"), indent=1)
print("checks:", [c["property_id"] for c in checks], "na:", len(na))
