#!/usr/bin/env python3
"""Sensitivity runs: apply a textual mutation to a scratch copy of /repo and run checks against it.

usage: tools/mutant.py <name> <file> <old> <new> -- C01 [C03 ...]
       tools/mutant.py --patch <patch.diff> -- C01 ...
The scratch worktree lives under /tmp and is removed afterwards.
"""
import os, subprocess, sys, shutil, tempfile

def main():
    args = sys.argv[1:]
    sep = args.index("--")
    spec, props = args[:sep], args[sep + 1:]
    tier = os.environ.get("MUT_TIER", "quick")
    d = tempfile.mkdtemp(prefix="mut_", dir="/tmp")
    wt = os.path.join(d, "repo")
    subprocess.run(["git", "-C", "/repo", "worktree", "add", "--detach", "-q", wt, "HEAD"], check=True)
    try:
        if spec[0] == "--patch":
            subprocess.run(["git", "-C", wt, "apply", os.path.abspath(spec[1])], check=True)
            name = os.path.basename(os.path.dirname(os.path.abspath(spec[1])))
        else:
            name, f, old, new = spec
            p = os.path.join(wt, f)
            s = open(p).read()
            if s.count(old) != 1:
                print("MUTANT %s: pattern occurs %d times in %s" % (name, s.count(old), f)); return 3
            open(p, "w").write(s.replace(old, new))
        env = dict(os.environ, VERIF_REPO=wt, VERIF_EVIDENCE_DIR=os.path.join(d, "evidence"), VERIF_REPLAY_DIR=os.path.join(d, "replays"))
        rc_all = []
        for pid in props:
            r = subprocess.run(["/verif/check", pid, "--tier", tier], env=env, stdout=subprocess.PIPE, stderr=subprocess.STDOUT, text=True)
            lines = [l for l in r.stdout.splitlines() if l.startswith(("VIOLATION", "  bucket", "HARNESS", "INCONCLUSIVE")) or " tier=" in l]
            print("MUTANT %s vs %s: exit=%d %s" % (name, pid, r.returncode, "CAUGHT" if r.returncode == 1 else "MISSED" if r.returncode == 0 else "ERROR"))
            for l in lines[:6]:
                print("    " + l[:300])
            rc_all.append(r.returncode)
        return 0
    finally:
        subprocess.run(["git", "-C", "/repo", "worktree", "remove", "--force", wt])
        shutil.rmtree(d, ignore_errors=True)

if __name__ == "__main__":
    sys.exit(main())
