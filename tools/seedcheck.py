#!/usr/bin/env python3
"""Confirm a seeded change and run checks against it.

usage: tools/seedcheck.py <dir with patch.diff demo.py meta.json> [--suite] [--checks C01,C03] [--tier quick]

Steps (all in a scratch worktree under /tmp, removed afterwards; /repo is never touched):
  1. demo.py on the clean tree must print PASS / exit 0
  2. patch applies; demo.py must exit 1 with the patch
  3. (--suite) the repository's pinned test suite still passes all stable_pass tests with the patch
  4. each listed check is run with VERIF_REPO=<patched worktree>; exit 1 = caught
Prints one summary line per step; exit 0 if everything confirmed (demo + optional suite), regardless of caught/missed.
"""
import json, os, shutil, subprocess, sys, tempfile


def run(cmd, **kw):
    return subprocess.run(cmd, stdout=subprocess.PIPE, stderr=subprocess.STDOUT, text=True, **kw)


def main():
    args = sys.argv[1:]
    d = os.path.abspath(args[0])
    suite = "--suite" in args
    checks = []
    tier = "quick"
    for i, a in enumerate(args):
        if a == "--checks":
            checks = args[i + 1].split(",")
        if a == "--tier":
            tier = args[i + 1]
    patch = os.path.join(d, "patch.diff")
    demo = os.path.join(d, "demo.py")
    tmp = tempfile.mkdtemp(prefix="seedchk_", dir="/tmp")
    wt = os.path.join(tmp, "repo")
    subprocess.run(["git", "-C", "/repo", "worktree", "add", "--detach", "-q", wt, "HEAD"], check=True)
    ok = True
    name = "/".join(d.split("/")[-2:])
    try:
        env = dict(os.environ, PYTHONPATH=wt, PYTHONDONTWRITEBYTECODE="1")
        env.pop("PYTEAL_VERIF", None)
        r = run(["/venv/bin/python", demo], cwd=wt, env=env)
        clean_ok = r.returncode == 0
        print("[%s] demo on clean tree: exit=%d %s" % (name, r.returncode, r.stdout.strip().splitlines()[-1][:200] if r.stdout.strip() else ""))
        ap = run(["git", "-C", wt, "apply", patch])
        if ap.returncode != 0:
            print("[%s] PATCH DOES NOT APPLY: %s" % (name, ap.stdout[:300]))
            return 3
        r = run(["/venv/bin/python", demo], cwd=wt, env=env)
        mut_fail = r.returncode != 0
        print("[%s] demo with patch:    exit=%d %s" % (name, r.returncode, r.stdout.strip().splitlines()[-1][:300] if r.stdout.strip() else ""))
        ok = clean_ok and mut_fail
        if suite:
            e2 = dict(os.environ, VERIF_REPO=wt)
            r = run(["/venv/bin/python", "/verif/tools/baseline.py"], env=e2)
            print("[%s] suite with patch: %s" % (name, r.stdout.strip().splitlines()[-1] if r.returncode == 0 else r.stdout[-600:]))
            ok = ok and r.returncode == 0
        for pid in checks:
            e3 = dict(os.environ, VERIF_REPO=wt, VERIF_EVIDENCE_DIR=os.path.join(tmp, "evidence"), VERIF_REPLAY_DIR=os.path.join(tmp, "replays"))
            r = run(["/verif/check", pid, "--tier", tier], env=e3)
            lines = [l for l in r.stdout.splitlines() if l.startswith(("VIOLATION", "  bucket", "HARNESS", "INCONCLUSIVE")) or " tier=" in l]
            print("[%s] check %s: exit=%d %s" % (name, pid, r.returncode, "CAUGHT" if r.returncode == 1 else "MISSED" if r.returncode == 0 else "ERROR"))
            for l in lines[:5]:
                print("      " + l[:260])
        print("[%s] confirmed=%s" % (name, ok))
        return 0 if ok else 1
    finally:
        subprocess.run(["git", "-C", "/repo", "worktree", "remove", "--force", wt])
        shutil.rmtree(tmp, ignore_errors=True)
        # replays written while testing a mutant are not evidence about /repo


if __name__ == "__main__":
    sys.exit(main())
