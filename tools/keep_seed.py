#!/usr/bin/env python3
"""Keep a confirmed seeded change under /verif/seeded/<prop>-<x>/ (patch.diff, demo.py, meta.json).
usage: tools/keep_seed.py C01 a "caught by C01 quick (bucket ...)" [missed-note]"""
import json, os, shutil, sys
prop, x, verdict = sys.argv[1], sys.argv[2], sys.argv[3]
root = os.environ.get("SEED_ROOT", "/tmp/seed")
src = "%s/%s/out/%s" % (root, prop, x)
if root != "/tmp/seed":
    x = ({"a": "e", "b": "f"} if root.endswith("seed3") else {"a": "c", "b": "d"})[x]  # later rounds are kept as <prop>-c/-d (round 2), -e/-f (round 3)
dst = "/verif/seeded/%s-%s" % (prop, x)
os.makedirs(dst, exist_ok=True)
for f in ("patch.diff", "demo.py"):
    shutil.copy(os.path.join(src, f), os.path.join(dst, f))
m = json.load(open(os.path.join(src, "meta.json")))
log = "/tmp/seedlogs/suite%s-%s-%s.log" % (("3" if root.endswith("seed3") else "2") if root != "/tmp/seed" else "", prop, sys.argv[2])
mine = []
if os.path.exists(log):
    mine = [l.strip() for l in open(log) if l.startswith("[")]
meta = {
    "property": prop,
    "id": "%s-%s" % (prop, x),
    "summary": m.get("summary"),
    "needs_to_manifest": m.get("needs_to_manifest"),
    "files": m.get("files"),
    "author_ran": m.get("ran"),
    "confirmed_by_me": mine + ["tools/seedcheck.py (scratch worktree of /repo HEAD): demo PASS on clean tree, FAIL with patch; pinned suite 3028/3028 stable_pass with patch"],
    "detection": verdict,
}
json.dump(meta, open(os.path.join(dst, "meta.json"), "w"), indent=1)
print("kept", dst)
