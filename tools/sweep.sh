#!/bin/sh
# run every registered quick check at several seeds; print one line per (check, seed)
# usage: tools/sweep.sh "2 3 4" [tier]
cd "$(dirname "$0")/.."
TIER=${2:-quick}
for s in $1; do
  for p in ${SWEEP_CHECKS:-C01 C02 C03 C04 C05 C06 C07 C08 C09 C10 C11 C12 C13 C14 C15 C16 C17 C18 C19 C20}; do
    out=$(VERIF_SEED=$s VERIF_EVIDENCE_DIR=/tmp/sweep_ev_$$ VERIF_REPLAY_DIR=$PWD/replays_sweep ./check $p --tier $TIER 2>&1)
    rc=$?
    echo "seed=$s $p rc=$rc $(echo "$out" | grep -E "tier=" | cut -c1-150)"
    if [ $rc -ne 0 ]; then echo "$out" | grep -E "VIOLATION|bucket|HARNESS|INCONCLUSIVE" | cut -c1-400; fi
  done
done
rm -rf /tmp/sweep_ev_$$
