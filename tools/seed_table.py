#!/usr/bin/env python3
"""Regenerate DESIGN.md section 8 (seeded changes) from seeded/*/meta.json."""
import glob, json, os, re
root = os.path.dirname(os.path.dirname(os.path.abspath(__file__)))
rows, missed_first, by_round = [], 0, {}
for d in sorted(glob.glob(os.path.join(root, "seeded", "*"))):
    m = json.load(open(os.path.join(d, "meta.json")))
    sid = os.path.basename(d)
    rnd = {"a": 1, "b": 1, "c": 2, "d": 2, "e": 3, "f": 3}[sid[-1]]
    by_round[rnd] = by_round.get(rnd, 0) + 1
    det = (m.get("detection") or "").replace("|", "\\|").replace("\n", " ")
    if "missed at first" in det or "after adding" in det or "after " in det:
        missed_first += 1
    summ = (m.get("summary") or "").replace("|", "\\|").replace("\n", " ")[:200]
    rows.append("| %s | %s | %s |" % (sid, summ, det))
head = """## 8. Seeded changes (sensitivity of the checks)

Fresh sub-agents were given only the text of one property and a scratch worktree, and asked for two changes each that
break the property while the pinned suite still passes and that need something specific to manifest; later rounds were
also told which code sites and mechanisms earlier rounds had used and asked for different ones (other clauses of the
statement, other options, other API entry points, histories). %s. Every
change was confirmed by me (`tools/seedcheck.py`: the demonstration passes on the clean tree and fails with the patch;
the pinned suite keeps all 3028 stable tests) and is kept under `seeded/<id>/` (patch, demonstration, meta; ids `-a/-b`
round 1, `-c/-d` round 2, `-e/-f` round 3). Each is caught by at least one **quick** check on seed 1; %d of the %d were
missed at first and led to stronger generators or oracles (noted per row: "after ..."). A few are caught by the check of a
neighbouring property rather than by the one the change was written against (C03-d by C04: the breakage is
illegal TEAL) - the row says so. None is applied to /repo.

| id | change | detection |
|---|---|---|
""" % (", ".join("round %d: %d changes" % (k, v) for k, v in sorted(by_round.items())), missed_first, len(rows))
p = os.path.join(root, "DESIGN.md")
s = open(p).read()
a = s.index("## 8. Seeded changes")
b = s.index("---------", a)
s = s[:a] + head + "\n".join(rows) + "\n\n" + s[b:]
open(p, "w").write(s)
print(len(rows), "rows;", missed_first, "missed at first")
