#!/opt/veriftools/pyvenv/bin/python
"""Validate MANIFEST.json and evidence/*.json against the schemas (run with python3-vt)."""
import json, glob, sys, jsonschema
ok = True
try:
    jsonschema.validate(json.load(open('/verif/MANIFEST.json')), json.load(open('/root/.vp/MANIFEST.schema.json'))); print('manifest ok')
except Exception as e:
    ok = False; print('MANIFEST INVALID', e)
es = json.load(open('/root/.vp/EVIDENCE.schema.json'))
for f in sorted(glob.glob('/verif/evidence/*.json')):
    try:
        jsonschema.validate(json.load(open(f)), es); print(f.split('/')[-1], 'ok')
    except Exception as e:
        ok = False; print(f, 'INVALID', str(e)[:300])
sys.exit(0 if ok else 1)
